// C20: the C language interface returns the same information as the C++ operation it wraps,
// never lets an exception cross the language boundary, reports errors as the documented
// negative codes after invoking the registered handler, and releases objects exactly once.
//
// Every generated program is run THROUGH THE C ENTRY POINTS on handles and, next to it,
// through the C++ API on C++ twins; after each step the handle contents (ascii dump through
// the C dump function, C getters + iterators) are compared with the twins.
//
// The file includes itself once per interfaced domain (section C20_DOMAIN_BODY below): the
// domain program is written once, with the C function names built by token pasting
// ppl_<Dom>_<op>.  Build: harness/c20_build.mk.
//
// Non-trivial case: at least one C call reached a C++ operation on a non-empty, non-universe
// operand, or an error path (negative return code) was exercised.
#ifndef C20_DOMAIN_BODY

// Compile-time partition (build speed): -DC20_PART=0 is the main part (globals, allocation
// functions, MIP/PIP/misc programs, vf_case, main), -DC20_PART=k (1..8) holds the program of
// the k-th domain; without C20_PART everything is compiled in a single translation unit.
#ifndef C20_PART
#define C20_PART -1
#endif
#define C20_MAIN_PART (C20_PART <= 0)
#define C20_HAS_DOM(k) (C20_PART < 0 || C20_PART == (k))
#define C20_CAT_(a, b, c, d) a##b##c##d
#define C20_CAT(a, b, c, d) C20_CAT_(a, b, c, d)
#define C20_CAT5_(a, b, c, d, e) a##b##c##d##e
#define C20_CAT5(a, b, c, d, e) C20_CAT5_(a, b, c, d, e)
#define C20_STR_(x) #x
#define C20_STR(x) C20_STR_(x)

#include "ppl-config.h"
#include "version.hh"
#include "ppl_include_files.hh"
#include "ppl_c.h"
#if !C20_MAIN_PART
// common.hh defines the strong PPL assertion handlers: keep a single definition (main part)
#define ppl_assertion_failed C20_CAT(c20_unused_assertion_failed_, C20_PART, , )
#define ppl_unreachable_msg C20_CAT(c20_unused_unreachable_msg_, C20_PART, , )
#define ppl_unreachable C20_CAT(c20_unused_unreachable_, C20_PART, , )
#endif
#include "common.hh"
#if !C20_MAIN_PART
#undef ppl_assertion_failed
#undef ppl_unreachable_msg
#undef ppl_unreachable
#endif
#include <new>
#include <memory>

using namespace Parma_Polyhedra_Library;

// ------------------------------------------------------------------ allocation accounting
// Replacement of the global allocation functions: blocks allocated while a C entry point is
// running are tagged; mem::live_c counts the tagged blocks still alive (ownership oracle).
// mem::arm > 0 makes the arm-th allocation performed inside a C call throw std::bad_alloc.
namespace mem {
extern long live_c, arm, fired; extern bool in_c;
extern const char* cur_name; extern uint64_t seq;     // C function being executed, allocation sequence number
std::string survivors(uint64_t since);                 // tagged blocks allocated after `since' and still alive
}
#if C20_MAIN_PART
namespace mem {
long live_c = 0, arm = 0, fired = 0; bool in_c = false; const char* cur_name = ""; uint64_t seq = 0;
struct Hdr { uint64_t magic; const char* name; uint64_t seq; uint64_t slot; };
static const uint64_t MAGIC = 0xC20C20C20C20C20CULL;
static const size_t NSLOT = 1 << 14; static Hdr* slots[NSLOT]; static size_t next_slot = 0;
static inline void* get(size_t n, bool nothrow) {
  if (arm > 0 && in_c && --arm == 0) { ++fired; if (nothrow) return 0; throw std::bad_alloc(); }
  Hdr* p = (Hdr*) std::malloc(n + sizeof(Hdr));
  if (!p) { if (nothrow) return 0; throw std::bad_alloc(); }
  p->magic = MAGIC; p->name = in_c ? cur_name : 0; p->seq = ++seq; p->slot = NSLOT;
  if (in_c) { ++live_c; for (size_t k = 0; k < 64; ++k) { size_t s = (next_slot + k) % NSLOT; if (!slots[s]) { slots[s] = p; p->slot = s; next_slot = s + 1; break; } } }
  return p + 1;
}
static inline void put(void* q) {
  if (!q) return; Hdr* p = (Hdr*) q - 1;
  if (p->magic != MAGIC) { std::free(q); return; }
  if (p->name) { --live_c; if (p->slot < NSLOT) slots[p->slot] = 0; } p->magic = 0; std::free(p);
}
std::string survivors(uint64_t since) {
  std::map<std::string, int> m; for (size_t s = 0; s < NSLOT; ++s) if (slots[s] && slots[s]->seq > since) m[slots[s]->name]++;
  std::string r; for (auto& kv : m) r += " " + kv.first + " x" + std::to_string(kv.second); return r;
}
}
void* operator new(size_t n) { return mem::get(n, false); }
void* operator new[](size_t n) { return mem::get(n, false); }
void* operator new(size_t n, const std::nothrow_t&) noexcept { return mem::get(n, true); }
void* operator new[](size_t n, const std::nothrow_t&) noexcept { return mem::get(n, true); }
void operator delete(void* p) noexcept { mem::put(p); }
void operator delete[](void* p) noexcept { mem::put(p); }
void operator delete(void* p, size_t) noexcept { mem::put(p); }
void operator delete[](void* p, size_t) noexcept { mem::put(p); }
void operator delete(void* p, const std::nothrow_t&) noexcept { mem::put(p); }
void operator delete[](void* p, const std::nothrow_t&) noexcept { mem::put(p); }

const vf::Info vf_info = { "C20", "c20_cint", 3.0 };
#endif // C20_MAIN_PART

// ------------------------------------------------------------------ error handler record
struct ErrRec { int count; int code; char desc[200]; };
extern ErrRec g_err;
extern long g_handles;         // handles created through ppl_new_* and not yet deleted
extern "C" void c20_error_handler(enum ppl_enum_error_code code, const char* d);
#if C20_MAIN_PART
ErrRec g_err; long g_handles = 0;
extern "C" void c20_error_handler(enum ppl_enum_error_code code, const char* d) {
  ++g_err.count; g_err.code = (int) code; std::snprintf(g_err.desc, sizeof g_err.desc, "%s", d ? d : "(null)");
}
#endif

static std::string zs(const mpz_class& z) { return z.get_str(); }

// ------------------------------------------------------------------ environment of one case
struct Env {
  vf::Ctx& c; vf::Tape& t;
  int err_paths = 0, nt_steps = 0;
  bool base_leak = false;
  long arm_next = 0; bool oom_fired = false;   // allocation-failure injection for the next C call
  explicit Env(vf::Ctx& c_) : c(c_), t(c_.t) {}

  // One call of a C entry point.  Oracle (2): no exception may cross; a negative return is a
  // documented code, never an internal-error code, and the handler ran exactly once with it.
  template <class F> int ccall(const std::string& name, F f) {
    c.tag(name);
    g_err.count = 0; g_err.code = 0; g_err.desc[0] = 0;
    int rc = 0; bool crossed = false; std::string what;
    static std::set<std::string> interned; mem::cur_name = interned.insert(name).first->c_str();
    long fired0 = mem::fired; mem::arm = arm_next; arm_next = 0;
    mem::in_c = true;
    try { rc = f(); }
    catch (std::exception& e) { crossed = true; mem::in_c = false; mem::arm = 0; what = e.what(); }
    catch (...) { crossed = true; mem::in_c = false; mem::arm = 0; what = "non-standard exception"; }
    mem::in_c = false; mem::arm = 0; oom_fired = mem::fired != fired0;
    c.check("exc.crossed", !crossed, [&] { return name + ": a C++ exception crossed the language boundary: " + what; });
    if (rc < 0) {
      ++err_paths;
      c.check("err.undocumented_code", rc >= -12 && rc != -1, [&] { return name + " returned the undocumented code " + std::to_string(rc); });
      c.check("err.internal_code", rc != PPL_ERROR_INTERNAL_ERROR && rc != PPL_ERROR_UNKNOWN_STANDARD_EXCEPTION && rc != PPL_ERROR_UNEXPECTED_ERROR,
              [&] { return name + " returned the bug-indicating code " + std::to_string(rc) + " (" + g_err.desc + ")"; });
      if (rc != PPL_STDIO_ERROR)
        c.check("err.handler", g_err.count == 1 && g_err.code == rc, [&] { return name + " returned " + std::to_string(rc) + " but the error handler was invoked " + std::to_string(g_err.count) + " time(s), last code " + std::to_string(g_err.code); });
    }
    else c.check("err.handler_spurious", g_err.count == 0, [&] { return name + " returned " + std::to_string(rc) + " (success) but invoked the error handler with code " + std::to_string(g_err.code) + ": " + g_err.desc; });
    return rc;
  }
  // code the C interface documents for the exception the C++ operation throws
  template <class FX> int expect(FX fx) {
    try { return fx(); }
    catch (vf::PplAssert&) { throw; }
    catch (std::bad_alloc&) { return PPL_ERROR_OUT_OF_MEMORY; }
    catch (std::invalid_argument&) { return PPL_ERROR_INVALID_ARGUMENT; }
    catch (std::domain_error&) { return PPL_ERROR_DOMAIN_ERROR; }
    catch (std::length_error&) { return PPL_ERROR_LENGTH_ERROR; }
    catch (std::logic_error&) { return PPL_ERROR_LOGIC_ERROR; }
    catch (std::overflow_error&) { return PPL_ARITHMETIC_OVERFLOW; }
    catch (std::runtime_error&) { return PPL_ERROR_INTERNAL_ERROR; }
    catch (std::exception&) { return PPL_ERROR_UNKNOWN_STANDARD_EXCEPTION; }
  }
  // The C call and, next to it, the C++ operation: same return value / matching error code.
  template <class FC, class FX> int both(const std::string& name, const char* opid, FC fc, FX fx) {
    int exp = expect(fx);
    int rc = ccall(name, fc);
    if (exp < 0 || rc < 0)
      c.check(std::string("err.code.") + opid, rc == exp, [&] { return name + " returned " + std::to_string(rc) + (rc < 0 ? std::string(" (") + g_err.desc + ")" : std::string()) + ", the C++ operation maps to " + std::to_string(exp); });
    else
      c.check(std::string("same.ret.") + opid, rc == exp, [&] { return name + " returned " + std::to_string(rc) + ", the C++ operation gives " + std::to_string(exp); });
    if (rc < 0) c.log << "      -> error " << rc << " (" << g_err.desc << ")\n";
    return rc;
  }
  void same(const char* id, bool ok, const std::function<std::string()>& m) { c.check(std::string("same.") + id, ok, m); }

  // capture what a C function writes to a FILE*
  template <class F> std::string via_file(const std::string& name, F f, int* prc = 0) {
    char* buf = 0; size_t sz = 0; FILE* fp = open_memstream(&buf, &sz);
    int rc = ccall(name, [&] { return f(fp); }); std::fclose(fp);
    std::string s(buf ? buf : "", sz); std::free(buf); if (prc) *prc = rc; return s;
  }
  template <class F> int from_string(const std::string& name, const std::string& s, F f) {
    FILE* fp = fmemopen((void*) s.data(), s.size(), "r"); if (!fp) throw vf::Inconclusive("fmemopen");
    int rc = ccall(name, [&] { return f(fp); }); std::fclose(fp); return rc;
  }
  mpz_class gen_z(bool allow_big = true) {
    int k = t.weighted({70, 20, allow_big ? 4 : 0, 6});
    if (k == 0) return mpz_class(t.range(-4, 4)); if (k == 1) return mpz_class(0);
    if (k == 2) { mpz_class z = 1; z <<= (unsigned) t.range(64, 80); z += t.range(0, 9); return t.chance(50) ? z : mpz_class(-z); }
    return mpz_class(t.range(-40, 40));
  }
};

// ------------------------------------------------------------------ handles (ownership)
// Each handle is deleted exactly once: through free_() on the normal path (checked call),
// in the destructor on the failure path.
template <class Tag> struct Hnd {
  Tag* p = 0; int (*del)(const Tag*); const char* dname;
  Hnd(int (*d)(const Tag*), const char* n) : del(d), dname(n) {}
  Hnd(const Hnd&) = delete; Hnd& operator=(const Hnd&) = delete;
  ~Hnd() { if (p) { try { del(p); } catch (...) {} --g_handles; p = 0; } }
  operator Tag*() const { return p; }
  const Tag* k() const { return p; }
  Tag** out() { return &p; }
  void got(int rc) { if (rc >= 0 && p) ++g_handles; else p = 0; }
  void free_(Env& e) {
    if (!p) return; Tag* q = p; p = 0; --g_handles;
    int rc = e.ccall(dname, [&] { return del(q); });
    e.c.check("own.delete", rc == 0, [&] { return std::string(dname) + " returned " + std::to_string(rc); });
  }
};
#define C20_HT(N) struct H##N : Hnd<ppl_##N##_tag> { H##N() : Hnd<ppl_##N##_tag>(ppl_delete_##N, "ppl_delete_" #N) {} };
C20_HT(Coefficient) C20_HT(Linear_Expression) C20_HT(Constraint) C20_HT(Constraint_System) C20_HT(Constraint_System_const_iterator)
C20_HT(Generator) C20_HT(Generator_System) C20_HT(Generator_System_const_iterator)
C20_HT(Congruence) C20_HT(Congruence_System) C20_HT(Congruence_System_const_iterator)
C20_HT(Grid_Generator) C20_HT(Grid_Generator_System) C20_HT(Grid_Generator_System_const_iterator)
C20_HT(MIP_Problem) C20_HT(PIP_Problem) C20_HT(Artificial_Parameter_Sequence_const_iterator)
C20_HT(Polyhedron) C20_HT(Grid) C20_HT(Rational_Box) C20_HT(BD_Shape_mpq_class) C20_HT(Octagonal_Shape_mpz_class)
C20_HT(Pointset_Powerset_C_Polyhedron) C20_HT(Constraints_Product_C_Polyhedron_Grid) C20_HT(Pointset_Powerset_NNC_Polyhedron)
C20_HT(Pointset_Powerset_C_Polyhedron_iterator) C20_HT(Pointset_Powerset_C_Polyhedron_const_iterator)

// ------------------------------------------------------------------ basic objects: C handle + C++ twin
struct LEv { std::vector<mpz_class> a; mpz_class b;
  std::string str() const { std::string s; for (size_t i = 0; i < a.size(); ++i) if (a[i] != 0) s += (s.empty() ? "" : " + ") + zs(a[i]) + "*x" + std::to_string(i); if (b != 0 || s.empty()) s += (s.empty() ? "" : " + ") + zs(b); return s + " [dim " + std::to_string(a.size()) + "]"; } };
static const char* CTN(int k) { static const char* n[] = { "<", "<=", "==", ">=", ">", "?" }; return n[k < 0 || k > 4 ? 5 : k]; }

struct PLe { HLinear_Expression h; Linear_Expression x; };
struct PCon { HConstraint h; Constraint x = Constraint::zero_dim_positivity(); };
struct PGen { HGenerator h; Generator x = Generator::zero_dim_point(); };
struct PCg { HCongruence h; Congruence x = Congruence::zero_dim_integrality(); };
struct PGg { HGrid_Generator h; Grid_Generator x = Grid_Generator::zero_dim_point(); };
struct PCs { HConstraint_System h; Constraint_System x; };
struct PGs { HGenerator_System h; Generator_System x; };
struct PCgs { HCongruence_System h; Congruence_System x; };
struct PGgs { HGrid_Generator_System h; Grid_Generator_System x; };

struct Basics {
  Env& e; vf::Ctx& c; vf::Tape& t;
  explicit Basics(Env& e_) : e(e_), c(e_.c), t(e_.t) {}

  // ---- coefficients
  void mk_coef(HCoefficient& h, const mpz_class& z) {
    mpz_class tmp(z); int how = (int) t.range(0, 2);
    if (how == 0) h.got(e.ccall("ppl_new_Coefficient_from_mpz_t", [&] { return ppl_new_Coefficient_from_mpz_t(h.out(), tmp.get_mpz_t()); }));
    else if (how == 1) { h.got(e.ccall("ppl_new_Coefficient", [&] { return ppl_new_Coefficient(h.out()); }));
      int rc = e.ccall("ppl_assign_Coefficient_from_mpz_t", [&] { return ppl_assign_Coefficient_from_mpz_t(h, tmp.get_mpz_t()); }); e.same("coefficient", rc == 0, [&] { return std::string("ppl_assign_Coefficient_from_mpz_t failed"); }); }
    else { HCoefficient src; src.got(e.ccall("ppl_new_Coefficient_from_mpz_t", [&] { return ppl_new_Coefficient_from_mpz_t(src.out(), tmp.get_mpz_t()); }));
      if (t.chance(50)) h.got(e.ccall("ppl_new_Coefficient_from_Coefficient", [&] { return ppl_new_Coefficient_from_Coefficient(h.out(), src.k()); }));
      else { h.got(e.ccall("ppl_new_Coefficient", [&] { return ppl_new_Coefficient(h.out()); })); e.ccall("ppl_assign_Coefficient_from_Coefficient", [&] { return ppl_assign_Coefficient_from_Coefficient(h, src.k()); }); }
      src.free_(e); }
    c.check("same.coefficient", h.p != 0 && rd(h.k()) == z, [&] { return "coefficient handle built from " + zs(z) + " reads back as " + (h.p ? zs(rd(h.k())) : std::string("(no handle)")); });
  }
  mpz_class rd(ppl_const_Coefficient_t h) {
    mpz_class z; int rc = e.ccall("ppl_Coefficient_to_mpz_t", [&] { return ppl_Coefficient_to_mpz_t(h, z.get_mpz_t()); });
    c.check("same.coefficient", rc == 0, "ppl_Coefficient_to_mpz_t failed"); return z;
  }
  // ---- generated data
  bool small_only = false;   // MIP/PIP programs: no huge coefficients (running time)
  LEv gen_lev(size_t n, bool mismatch_ok = true) {
    LEv v; size_t m = n; if (mismatch_ok && t.chance(4)) m = n + 1;
    v.a.resize(m); for (size_t i = 0; i < m; ++i) v.a[i] = e.gen_z(!small_only); v.b = e.gen_z(!small_only); return v;
  }
  static Linear_Expression lex(const LEv& v) { Linear_Expression x; x.set_space_dimension(v.a.size()); for (size_t i = 0; i < v.a.size(); ++i) if (v.a[i] != 0) add_mul_assign(x, Coefficient(v.a[i]), Variable(i)); x += Coefficient(v.b); return x; }
  // ---- linear expressions
  void mk_le(PLe& p, const LEv& v) {
    size_t m = v.a.size(); p.x = lex(v);
    if (m == 0 && t.chance(50)) p.h.got(e.ccall("ppl_new_Linear_Expression", [&] { return ppl_new_Linear_Expression(p.h.out()); }));
    else p.h.got(e.ccall("ppl_new_Linear_Expression_with_dimension", [&] { return ppl_new_Linear_Expression_with_dimension(p.h.out(), m); }));
    c.check("same.linear_expression", p.h.p != 0, "could not create a linear expression");
    for (size_t i = 0; i < m; ++i) if (v.a[i] != 0) { HCoefficient k; mk_coef(k, v.a[i]);
      int rc = e.ccall("ppl_Linear_Expression_add_to_coefficient", [&] { return ppl_Linear_Expression_add_to_coefficient(p.h, i, k.k()); }); c.check("same.linear_expression", rc == 0, "add_to_coefficient failed"); k.free_(e); }
    if (v.b != 0) { HCoefficient k; mk_coef(k, v.b); int rc = e.ccall("ppl_Linear_Expression_add_to_inhomogeneous", [&] { return ppl_Linear_Expression_add_to_inhomogeneous(p.h, k.k()); }); c.check("same.linear_expression", rc == 0, "add_to_inhomogeneous failed"); k.free_(e); }
    if (t.chance(25)) same_le(p.h.k(), p.x, "built");
  }
  void same_le(ppl_const_Linear_Expression_t h, const Linear_Expression& x, const char* where) {
    ppl_dimension_type d = 999; int rc = e.ccall("ppl_Linear_Expression_space_dimension", [&] { return ppl_Linear_Expression_space_dimension(h, &d); });
    c.check("same.linear_expression", rc == 0 && d == x.space_dimension(), [&] { return std::string(where) + ": space dimension " + std::to_string(d) + " vs C++ " + std::to_string(x.space_dimension()); });
    HCoefficient k; k.got(e.ccall("ppl_new_Coefficient", [&] { return ppl_new_Coefficient(k.out()); }));
    for (size_t i = 0; i < d; ++i) { e.ccall("ppl_Linear_Expression_coefficient", [&] { return ppl_Linear_Expression_coefficient(h, i, k); }); mpz_class z = rd(k.k());
      c.check("same.linear_expression", z == mpz_class(x.coefficient(Variable(i))), [&] { return std::string(where) + ": coefficient of x" + std::to_string(i) + " is " + zs(z) + ", C++ " + zs(mpz_class(x.coefficient(Variable(i)))); }); }
    e.ccall("ppl_Linear_Expression_inhomogeneous_term", [&] { return ppl_Linear_Expression_inhomogeneous_term(h, k); });
    { mpz_class z = rd(k.k()); c.check("same.linear_expression", z == mpz_class(x.inhomogeneous_term()), [&] { return std::string(where) + ": inhomogeneous term " + zs(z) + ", C++ " + zs(mpz_class(x.inhomogeneous_term())); }); }
    k.free_(e);
    e.both("ppl_Linear_Expression_is_zero", "le_query", [&] { return ppl_Linear_Expression_is_zero(h); }, [&] { return x.is_zero() ? 1 : 0; });
    e.both("ppl_Linear_Expression_all_homogeneous_terms_are_zero", "le_query", [&] { return ppl_Linear_Expression_all_homogeneous_terms_are_zero(h); }, [&] { return x.all_homogeneous_terms_are_zero() ? 1 : 0; });
    e.both("ppl_Linear_Expression_OK", "le_query", [&] { return ppl_Linear_Expression_OK(h); }, [&] { return x.OK() ? 1 : 0; });
    same_print("Linear_Expression", [&](char** s) { return ppl_io_asprint_Linear_Expression(s, h); }, x);
  }
  // string output: ppl_io_asprint_<T> against operator<<
  template <class F, class X> void same_print(const char* type, F f, const X& x) {
    using namespace IO_Operators; char* s = 0; int rc = e.ccall(std::string("ppl_io_asprint_") + type, [&] { return f(&s); });
    std::ostringstream os; os << x; std::string got = s ? s : "(null)"; if (s) std::free(s);
    c.check("same.print", rc == 0 && got == os.str(), [&] { return std::string("ppl_io_asprint_") + type + " gives '" + got + "', operator<< gives '" + os.str() + "'"; });
  }
  template <class F, class X> void same_dump(const char* fname, F f, const X& x) {
    int rc; std::string got = e.via_file(fname, f, &rc); std::ostringstream os; x.ascii_dump(os);
    c.check("same.ascii_dump", rc == 0 && got == os.str(), [&] { return std::string(fname) + " differs from the C++ ascii_dump:\n" + got + "--- C++:\n" + os.str(); });
  }
  void le_arith(size_t n) {     // the arithmetic entry points on linear expressions
    PLe a, b; LEv va = gen_lev(n), vb = gen_lev(n); mk_le(a, va); mk_le(b, vb);
    c.log << "  le arithmetic on (" << va.str() << ") and (" << vb.str() << ")\n";
    int op = (int) t.range(0, 4);
    if (op == 0) e.both("ppl_add_Linear_Expression_to_Linear_Expression", "le_arith", [&] { return ppl_add_Linear_Expression_to_Linear_Expression(a.h, b.h.k()); }, [&] { a.x += b.x; return 0; });
    else if (op == 1) e.both("ppl_subtract_Linear_Expression_from_Linear_Expression", "le_arith", [&] { return ppl_subtract_Linear_Expression_from_Linear_Expression(a.h, b.h.k()); }, [&] { a.x -= b.x; return 0; });
    else if (op == 2) { mpz_class z = e.gen_z(); HCoefficient k; mk_coef(k, z); e.both("ppl_multiply_Linear_Expression_by_Coefficient", "le_arith", [&] { return ppl_multiply_Linear_Expression_by_Coefficient(a.h, k.k()); }, [&] { a.x *= Coefficient(z); return 0; }); k.free_(e); }
    else if (op == 3) { e.both("ppl_assign_Linear_Expression_from_Linear_Expression", "le_arith", [&] { return ppl_assign_Linear_Expression_from_Linear_Expression(a.h, b.h.k()); }, [&] { a.x = b.x; return 0; }); }
    else { HLinear_Expression cp; cp.got(e.ccall("ppl_new_Linear_Expression_from_Linear_Expression", [&] { return ppl_new_Linear_Expression_from_Linear_Expression(cp.out(), a.h.k()); })); c.check("same.linear_expression", cp.p != 0, "copy failed"); same_le(cp.k(), a.x, "copy"); cp.free_(e); }
    same_le(a.h.k(), a.x, "after arithmetic"); same_le(b.h.k(), b.x, "const operand");
    same_dump("ppl_Linear_Expression_ascii_dump", [&](FILE* f) { return ppl_Linear_Expression_ascii_dump(a.h.k(), f); }, a.x);
    a.h.free_(e); b.h.free_(e);
  }
  // ---- constraints
  static Constraint conx(const Linear_Expression& x, int type) { switch (type) { case 0: return x < 0; case 1: return x <= 0; case 2: return x == 0; case 3: return x >= 0; default: return x > 0; } }
  bool mk_con(PCon& p, const LEv& v, int type) {
    PLe le; mk_le(le, v); bool bad = type > 4;
    int rc = e.both("ppl_new_Constraint", "new_Constraint", [&] { return ppl_new_Constraint(p.h.out(), le.h.k(), (enum ppl_enum_Constraint_Type) type); },
                    [&] { if (bad) throw std::invalid_argument("t invalid"); p.x = conx(le.x, type); return 0; });
    p.h.got(rc); le.h.free_(e); if (rc < 0) return false;
    if (t.chance(20)) same_con(p.h.k(), p.x, "built");
    return true;
  }
  void same_con(ppl_const_Constraint_t h, const Constraint& x, const char* where) {
    ppl_dimension_type d = 999; e.ccall("ppl_Constraint_space_dimension", [&] { return ppl_Constraint_space_dimension(h, &d); });
    int ty = e.ccall("ppl_Constraint_type", [&] { return ppl_Constraint_type(h); });
    int xt = x.is_equality() ? PPL_CONSTRAINT_TYPE_EQUAL : x.is_strict_inequality() ? PPL_CONSTRAINT_TYPE_GREATER_THAN : PPL_CONSTRAINT_TYPE_GREATER_OR_EQUAL;
    c.check("same.constraint", d == x.space_dimension() && ty == xt, [&] { std::ostringstream s; using namespace IO_Operators; s << where << ": C constraint has dimension " << d << " type " << ty << "; C++ twin " << x << " dimension " << x.space_dimension() << " type " << xt; return s.str(); });
    HCoefficient k; k.got(e.ccall("ppl_new_Coefficient", [&] { return ppl_new_Coefficient(k.out()); }));
    for (size_t i = 0; i < d; ++i) { e.ccall("ppl_Constraint_coefficient", [&] { return ppl_Constraint_coefficient(h, i, k); }); mpz_class z = rd(k.k());
      c.check("same.constraint", z == mpz_class(x.coefficient(Variable(i))), [&] { return std::string(where) + ": coefficient of x" + std::to_string(i) + " is " + zs(z) + ", C++ " + zs(mpz_class(x.coefficient(Variable(i)))); }); }
    e.ccall("ppl_Constraint_inhomogeneous_term", [&] { return ppl_Constraint_inhomogeneous_term(h, k); });
    { mpz_class z = rd(k.k()); c.check("same.constraint", z == mpz_class(x.inhomogeneous_term()), [&] { return std::string(where) + ": inhomogeneous term " + zs(z) + ", C++ " + zs(mpz_class(x.inhomogeneous_term())); }); }
    k.free_(e);
    if (t.chance(30)) { e.both("ppl_Constraint_OK", "con_query", [&] { return ppl_Constraint_OK(h); }, [&] { return x.OK() ? 1 : 0; });
      same_print("Constraint", [&](char** s) { return ppl_io_asprint_Constraint(s, h); }, x);
      same_dump("ppl_Constraint_ascii_dump", [&](FILE* f) { return ppl_Constraint_ascii_dump(h, f); }, x);
      HLinear_Expression le; le.got(e.ccall("ppl_new_Linear_Expression_from_Constraint", [&] { return ppl_new_Linear_Expression_from_Constraint(le.out(), h); }));
      if (le.p) { same_le(le.k(), Linear_Expression(x.expression()), "from constraint"); le.free_(e); } }
  }
  // ---- generators
  bool mk_gen(PGen& p, const LEv& v, int type, const mpz_class& d) {
    PLe le; mk_le(le, v); HCoefficient k; mk_coef(k, d);
    int rc = e.both("ppl_new_Generator", "new_Generator", [&] { return ppl_new_Generator(p.h.out(), le.h.k(), (enum ppl_enum_Generator_Type) type, k.k()); },
      [&] { switch (type) { case PPL_GENERATOR_TYPE_LINE: p.x = Generator::line(le.x); break; case PPL_GENERATOR_TYPE_RAY: p.x = Generator::ray(le.x); break;
              case PPL_GENERATOR_TYPE_POINT: p.x = Generator::point(le.x, Coefficient(d)); break; case PPL_GENERATOR_TYPE_CLOSURE_POINT: p.x = Generator::closure_point(le.x, Coefficient(d)); break;
              default: throw std::invalid_argument("t invalid"); } return 0; });
    p.h.got(rc); le.h.free_(e); k.free_(e); if (rc < 0) return false;
    if (t.chance(25)) same_gen(p.h.k(), p.x, "built");
    return true;
  }
  bool gen_gen(PGen& p, size_t n, bool nnc, std::string* txt = 0) {
    LEv v = gen_lev(n); int type = t.weighted({50, 20, 15, nnc ? 12 : 2, 2}); static const int map[5] = { PPL_GENERATOR_TYPE_POINT, PPL_GENERATOR_TYPE_RAY, PPL_GENERATOR_TYPE_LINE, PPL_GENERATOR_TYPE_CLOSURE_POINT, 7 };
    mpz_class d = t.pick(std::vector<long>{1, 1, 2, 3, 1, -2, 0}); v.b = 0;
    static const char* tn[5] = { "point", "ray", "line", "closure_point", "invalid-type" };
    std::string s = std::string(tn[type]) + "(" + v.str() + ", " + zs(d) + ")"; if (txt) *txt = s;
    return mk_gen(p, v, map[type], d);
  }
  void same_gen(ppl_const_Generator_t h, const Generator& x, const char* where) {
    ppl_dimension_type d = 999; e.ccall("ppl_Generator_space_dimension", [&] { return ppl_Generator_space_dimension(h, &d); });
    int ty = e.ccall("ppl_Generator_type", [&] { return ppl_Generator_type(h); });
    int xt = x.is_line() ? PPL_GENERATOR_TYPE_LINE : x.is_ray() ? PPL_GENERATOR_TYPE_RAY : x.is_point() ? PPL_GENERATOR_TYPE_POINT : PPL_GENERATOR_TYPE_CLOSURE_POINT;
    c.check("same.generator", d == x.space_dimension() && ty == xt, [&] { std::ostringstream s; using namespace IO_Operators; s << where << ": C generator has dimension " << d << " type " << ty << "; C++ twin " << x << " dimension " << x.space_dimension() << " type " << xt; return s.str(); });
    HCoefficient k; k.got(e.ccall("ppl_new_Coefficient", [&] { return ppl_new_Coefficient(k.out()); }));
    for (size_t i = 0; i < d; ++i) { e.ccall("ppl_Generator_coefficient", [&] { return ppl_Generator_coefficient(h, i, k); }); mpz_class z = rd(k.k());
      c.check("same.generator", z == mpz_class(x.coefficient(Variable(i))), [&] { return std::string(where) + ": coefficient of x" + std::to_string(i) + " is " + zs(z) + ", C++ " + zs(mpz_class(x.coefficient(Variable(i)))); }); }
    e.both("ppl_Generator_divisor", "gen_divisor", [&] { return ppl_Generator_divisor(h, k); }, [&] { (void) x.divisor(); return 0; });
    if (x.is_point() || x.is_closure_point()) { mpz_class z = rd(k.k()); c.check("same.generator", z == mpz_class(x.divisor()), [&] { return std::string(where) + ": divisor " + zs(z) + ", C++ " + zs(mpz_class(x.divisor())); }); }
    k.free_(e);
    if (t.chance(30)) { e.both("ppl_Generator_OK", "gen_query", [&] { return ppl_Generator_OK(h); }, [&] { return x.OK() ? 1 : 0; });
      same_print("Generator", [&](char** s) { return ppl_io_asprint_Generator(s, h); }, x);
      same_dump("ppl_Generator_ascii_dump", [&](FILE* f) { return ppl_Generator_ascii_dump(h, f); }, x);
      HLinear_Expression le; le.got(e.ccall("ppl_new_Linear_Expression_from_Generator", [&] { return ppl_new_Linear_Expression_from_Generator(le.out(), h); }));
      if (le.p) { same_le(le.k(), Linear_Expression(x.expression()), "from generator"); le.free_(e); } }
  }
  // ---- congruences
  bool mk_cg(PCg& p, const LEv& v, const mpz_class& m) {
    PLe le; mk_le(le, v); HCoefficient k; mk_coef(k, m);
    int rc = e.both("ppl_new_Congruence", "new_Congruence", [&] { return ppl_new_Congruence(p.h.out(), le.h.k(), k.k()); }, [&] { p.x = (le.x %= 0) / Coefficient(m); return 0; });
    p.h.got(rc); le.h.free_(e); k.free_(e); if (rc < 0) return false;
    if (t.chance(25)) same_cg(p.h.k(), p.x, "built");
    return true;
  }
  bool gen_cg(PCg& p, size_t n, std::string* txt = 0) { LEv v = gen_lev(n); mpz_class m = t.pick(std::vector<long>{0, 2, 3, 1, 0, 5, -2}); if (txt) *txt = v.str() + " = 0 mod " + zs(m); return mk_cg(p, v, m); }
  void same_cg(ppl_const_Congruence_t h, const Congruence& x, const char* where) {
    ppl_dimension_type d = 999; e.ccall("ppl_Congruence_space_dimension", [&] { return ppl_Congruence_space_dimension(h, &d); });
    c.check("same.congruence", d == x.space_dimension(), [&] { return std::string(where) + ": dimension " + std::to_string(d) + " vs " + std::to_string(x.space_dimension()); });
    HCoefficient k; k.got(e.ccall("ppl_new_Coefficient", [&] { return ppl_new_Coefficient(k.out()); }));
    for (size_t i = 0; i < d; ++i) { e.ccall("ppl_Congruence_coefficient", [&] { return ppl_Congruence_coefficient(h, i, k); }); mpz_class z = rd(k.k());
      c.check("same.congruence", z == mpz_class(x.coefficient(Variable(i))), [&] { return std::string(where) + ": coefficient of x" + std::to_string(i) + " is " + zs(z) + ", C++ " + zs(mpz_class(x.coefficient(Variable(i)))); }); }
    e.ccall("ppl_Congruence_inhomogeneous_term", [&] { return ppl_Congruence_inhomogeneous_term(h, k); });
    { mpz_class z = rd(k.k()); c.check("same.congruence", z == mpz_class(x.inhomogeneous_term()), [&] { return std::string(where) + ": inhomogeneous term " + zs(z) + ", C++ " + zs(mpz_class(x.inhomogeneous_term())); }); }
    e.ccall("ppl_Congruence_modulus", [&] { return ppl_Congruence_modulus(h, k); });
    { mpz_class z = rd(k.k()); c.check("same.congruence", z == mpz_class(x.modulus()), [&] { return std::string(where) + ": modulus " + zs(z) + ", C++ " + zs(mpz_class(x.modulus())); }); }
    k.free_(e);
    if (t.chance(30)) { e.both("ppl_Congruence_OK", "cg_query", [&] { return ppl_Congruence_OK(h); }, [&] { return x.OK() ? 1 : 0; });
      same_print("Congruence", [&](char** s) { return ppl_io_asprint_Congruence(s, h); }, x);
      same_dump("ppl_Congruence_ascii_dump", [&](FILE* f) { return ppl_Congruence_ascii_dump(h, f); }, x);
      HLinear_Expression le; le.got(e.ccall("ppl_new_Linear_Expression_from_Congruence", [&] { return ppl_new_Linear_Expression_from_Congruence(le.out(), h); }));
      if (le.p) { same_le(le.k(), Linear_Expression(x.expression()), "from congruence"); le.free_(e); } }
  }
  // ---- grid generators
  bool mk_gg(PGg& p, const LEv& v, int type, const mpz_class& d) {
    PLe le; mk_le(le, v); HCoefficient k; mk_coef(k, d);
    int rc = e.both("ppl_new_Grid_Generator", "new_Grid_Generator", [&] { return ppl_new_Grid_Generator(p.h.out(), le.h.k(), (enum ppl_enum_Grid_Generator_Type) type, k.k()); },
      [&] { switch (type) { case PPL_GRID_GENERATOR_TYPE_LINE: p.x = Grid_Generator::grid_line(le.x); break; case PPL_GRID_GENERATOR_TYPE_PARAMETER: p.x = Grid_Generator::parameter(le.x); break;
              case PPL_GRID_GENERATOR_TYPE_POINT: p.x = Grid_Generator::grid_point(le.x, Coefficient(d)); break; default: throw std::invalid_argument("t invalid"); } return 0; });
    p.h.got(rc); le.h.free_(e); k.free_(e); if (rc < 0) return false;
    if (t.chance(25)) same_gg(p.h.k(), p.x, "built");
    return true;
  }
  bool gen_gg(PGg& p, size_t n, std::string* txt = 0) {
    LEv v = gen_lev(n); v.b = 0; int type = t.weighted({55, 25, 17, 3}); static const int map[4] = { PPL_GRID_GENERATOR_TYPE_POINT, PPL_GRID_GENERATOR_TYPE_PARAMETER, PPL_GRID_GENERATOR_TYPE_LINE, 9 };
    mpz_class d = t.pick(std::vector<long>{1, 1, 2, 3, 0}); static const char* tn[4] = { "grid_point", "parameter", "grid_line", "invalid-type" };
    if (txt) *txt = std::string(tn[type]) + "(" + v.str() + ", " + zs(d) + ")"; return mk_gg(p, v, map[type], d);
  }
  void same_gg(ppl_const_Grid_Generator_t h, const Grid_Generator& x, const char* where) {
    ppl_dimension_type d = 999; e.ccall("ppl_Grid_Generator_space_dimension", [&] { return ppl_Grid_Generator_space_dimension(h, &d); });
    int ty = e.ccall("ppl_Grid_Generator_type", [&] { return ppl_Grid_Generator_type(h); });
    int xt = x.is_line() ? PPL_GRID_GENERATOR_TYPE_LINE : x.is_parameter() ? PPL_GRID_GENERATOR_TYPE_PARAMETER : PPL_GRID_GENERATOR_TYPE_POINT;
    c.check("same.grid_generator", d == x.space_dimension() && ty == xt, [&] { std::ostringstream s; using namespace IO_Operators; s << where << ": C grid generator has dimension " << d << " type " << ty << "; C++ twin " << x << " dimension " << x.space_dimension() << " type " << xt; return s.str(); });
    HCoefficient k; k.got(e.ccall("ppl_new_Coefficient", [&] { return ppl_new_Coefficient(k.out()); }));
    for (size_t i = 0; i < d; ++i) { e.ccall("ppl_Grid_Generator_coefficient", [&] { return ppl_Grid_Generator_coefficient(h, i, k); }); mpz_class z = rd(k.k());
      c.check("same.grid_generator", z == mpz_class(x.coefficient(Variable(i))), [&] { return std::string(where) + ": coefficient of x" + std::to_string(i) + " is " + zs(z) + ", C++ " + zs(mpz_class(x.coefficient(Variable(i)))); }); }
    e.both("ppl_Grid_Generator_divisor", "gg_divisor", [&] { return ppl_Grid_Generator_divisor(h, k); }, [&] { (void) x.divisor(); return 0; });
    if (!x.is_line()) { mpz_class z = rd(k.k()); c.check("same.grid_generator", z == mpz_class(x.divisor()), [&] { return std::string(where) + ": divisor " + zs(z) + ", C++ " + zs(mpz_class(x.divisor())); }); }
    k.free_(e);
    if (t.chance(30)) { e.both("ppl_Grid_Generator_OK", "gg_query", [&] { return ppl_Grid_Generator_OK(h); }, [&] { return x.OK() ? 1 : 0; });
      same_print("Grid_Generator", [&](char** s) { return ppl_io_asprint_Grid_Generator(s, h); }, x);
      same_dump("ppl_Grid_Generator_ascii_dump", [&](FILE* f) { return ppl_Grid_Generator_ascii_dump(h, f); }, x); }
  }
  // ---- systems: lock-step iteration through the C iterators and the C++ iterators
#define C20_SAME_SYS(SYS, ELEM, cmp, idname)                                                                                       \
  void same_##SYS(ppl_const_##SYS##_t h, const SYS& x, const char* where) {                                                         \
    ppl_dimension_type d = 999; e.ccall("ppl_" #SYS "_space_dimension", [&] { return ppl_##SYS##_space_dimension(h, &d); });        \
    c.check("same." idname, d == x.space_dimension(), [&] { return std::string(where) + ": " #SYS " space dimension " + std::to_string(d) + " vs C++ " + std::to_string(x.space_dimension()); }); \
    e.both("ppl_" #SYS "_empty", "sys_query", [&] { return ppl_##SYS##_empty(h); }, [&] { return x.empty() ? 1 : 0; });             \
    H##SYS##_const_iterator it, end;                                                                                                \
    it.got(e.ccall("ppl_new_" #SYS "_const_iterator", [&] { return ppl_new_##SYS##_const_iterator(it.out()); }));                   \
    end.got(e.ccall("ppl_new_" #SYS "_const_iterator", [&] { return ppl_new_##SYS##_const_iterator(end.out()); }));                 \
    c.check("same." idname, it.p && end.p, "cannot create iterators");                                                             \
    e.ccall("ppl_" #SYS "_begin", [&] { return ppl_##SYS##_begin(h, it); }); e.ccall("ppl_" #SYS "_end", [&] { return ppl_##SYS##_end(h, end); }); \
    SYS::const_iterator xi = x.begin(), xe = x.end(); size_t pos = 0;                                                               \
    for (;; ++pos, ++xi) {                                                                                                          \
      int at_end = e.ccall("ppl_" #SYS "_const_iterator_equal_test", [&] { return ppl_##SYS##_const_iterator_equal_test(it.k(), end.k()); }); \
      c.check("same." idname, (at_end > 0) == (xi == xe) && at_end >= 0, [&] { return std::string(where) + ": the C iteration over the " #SYS " " + (at_end > 0 ? "ends" : "continues") + " at position " + std::to_string(pos) + " where the C++ one does not"; }); \
      if (xi == xe) break;                                                                                                          \
      if (pos == 1 && t.chance(30)) { H##SYS##_const_iterator cp;                                                                   \
        cp.got(e.ccall("ppl_new_" #SYS "_const_iterator_from_" #SYS "_const_iterator", [&] { return ppl_new_##SYS##_const_iterator_from_##SYS##_const_iterator(cp.out(), it.k()); })); \
        int eq = e.ccall("ppl_" #SYS "_const_iterator_equal_test", [&] { return ppl_##SYS##_const_iterator_equal_test(it.k(), cp.k()); }); \
        c.check("same." idname, eq > 0, "a copied iterator differs from its source");                                                \
        e.ccall("ppl_assign_" #SYS "_const_iterator_from_" #SYS "_const_iterator", [&] { return ppl_assign_##SYS##_const_iterator_from_##SYS##_const_iterator(cp, end.k()); }); \
        eq = e.ccall("ppl_" #SYS "_const_iterator_equal_test", [&] { return ppl_##SYS##_const_iterator_equal_test(end.k(), cp.k()); }); \
        c.check("same." idname, eq > 0, "an assigned iterator differs from its source"); cp.free_(e); }                              \
      ppl_const_##ELEM##_t el = 0; int rc = e.ccall("ppl_" #SYS "_const_iterator_dereference", [&] { return ppl_##SYS##_const_iterator_dereference(it.k(), &el); }); \
      c.check("same." idname, rc == 0 && el != 0, "dereference failed"); cmp(el, *xi, where);                                       \
      e.ccall("ppl_" #SYS "_const_iterator_increment", [&] { return ppl_##SYS##_const_iterator_increment(it); });                   \
    }                                                                                                                               \
    it.free_(e); end.free_(e);                                                                                                      \
    if (t.chance(20)) { e.both("ppl_" #SYS "_OK", "sys_query", [&] { return ppl_##SYS##_OK(h); }, [&] { return x.OK() ? 1 : 0; });  \
      same_print(#SYS, [&](char** s) { return ppl_io_asprint_##SYS(s, h); }, x);                                                    \
      same_dump("ppl_" #SYS "_ascii_dump", [&](FILE* f) { return ppl_##SYS##_ascii_dump(h, f); }, x); }                            \
  }
  C20_SAME_SYS(Constraint_System, Constraint, same_con, "constraint_system")
  C20_SAME_SYS(Generator_System, Generator, same_gen, "generator_system")
  C20_SAME_SYS(Congruence_System, Congruence, same_cg, "congruence_system")
  C20_SAME_SYS(Grid_Generator_System, Grid_Generator, same_gg, "grid_generator_system")

  int gen_ct(bool strict_ok) { int k = t.weighted({35, 25, 20, strict_ok ? 9 : 2, strict_ok ? 9 : 2, 1}); static const int m[6] = { 3, 1, 2, 4, 0, 6 }; return m[k]; }
  bool gen_con(PCon& p, size_t n, bool strict_ok, std::string* txt = 0) { LEv v = gen_lev(n); if (no_false_cs && !v.a.empty()) { bool z = true; for (size_t i = 0; i < v.a.size(); ++i) if (v.a[i] != 0) z = false; if (z) v.a[0] = 1; } int ty = gen_ct(strict_ok); if (txt) *txt = v.str() + " " + CTN(ty) + " 0"; return mk_con(p, v, ty); }

  bool no_false_cs = false;   // BD_Shape::get_limiting_shape (BD_Shape_templates.hh:3164) crashes on constraints without variables (base library)
  // builds a constraint system of up to maxrows constraints over n dimensions through the C builders
  void gen_cs(PCs& p, size_t n, int maxrows, bool strict_ok, std::string* txt = 0) {
    int how = (int) t.range(0, 2); int m = (int) t.range(0, maxrows); std::string s = "{"; if (no_false_cs && how == 1) how = 0;
    if (how == 1) { p.h.got(e.ccall("ppl_new_Constraint_System_zero_dim_empty", [&] { return ppl_new_Constraint_System_zero_dim_empty(p.h.out()); })); p.x = Constraint_System::zero_dim_empty(); s += "false; "; }
    else if (how == 2 && m > 0) { PCon k; std::string cs; if (gen_con(k, n, strict_ok, &cs)) { p.h.got(e.ccall("ppl_new_Constraint_System_from_Constraint", [&] { return ppl_new_Constraint_System_from_Constraint(p.h.out(), k.h.k()); })); p.x = Constraint_System(k.x); s += cs + "; "; k.h.free_(e); } --m; }
    if (!p.h.p) p.h.got(e.ccall("ppl_new_Constraint_System", [&] { return ppl_new_Constraint_System(p.h.out()); }));
    c.check("same.constraint_system", p.h.p != 0, "cannot create a constraint system");
    for (int i = 0; i < m; ++i) { PCon k; std::string cs; if (!gen_con(k, n, strict_ok, &cs)) continue; s += cs + "; ";
      e.both("ppl_Constraint_System_insert_Constraint", "cs_insert", [&] { return ppl_Constraint_System_insert_Constraint(p.h, k.h.k()); }, [&] { p.x.insert(k.x); return 0; }); k.h.free_(e); }
    if (txt) *txt = s + "}";
    if (t.chance(15)) { same_Constraint_System(p.h.k(), p.x, "built");
      e.both("ppl_Constraint_System_has_strict_inequalities", "sys_query", [&] { return ppl_Constraint_System_has_strict_inequalities(p.h.k()); }, [&] { return p.x.has_strict_inequalities() ? 1 : 0; }); }
  }
  void gen_gs(PGs& p, size_t n, int maxrows, bool nnc, bool point_first, std::string* txt = 0) {
    int m = (int) t.range(point_first ? 1 : 0, maxrows); std::string s = "{";
    p.h.got(e.ccall("ppl_new_Generator_System", [&] { return ppl_new_Generator_System(p.h.out()); })); c.check("same.generator_system", p.h.p != 0, "cannot create a generator system");
    for (int i = 0; i < m; ++i) { PGen g; std::string gs; bool ok;
      if (i == 0 && point_first) { LEv v = gen_lev(n, false); v.b = 0; gs = "point(" + v.str() + ")"; ok = mk_gen(g, v, PPL_GENERATOR_TYPE_POINT, 1); } else ok = gen_gen(g, n, nnc, &gs);
      if (!ok) continue; s += gs + "; ";
      e.both("ppl_Generator_System_insert_Generator", "gs_insert", [&] { return ppl_Generator_System_insert_Generator(p.h, g.h.k()); }, [&] { p.x.insert(g.x); return 0; }); g.h.free_(e); }
    if (txt) *txt = s + "}";
    if (t.chance(15)) same_Generator_System(p.h.k(), p.x, "built");
  }
  void gen_cgs(PCgs& p, size_t n, int maxrows, std::string* txt = 0) {
    int m = (int) t.range(0, maxrows); std::string s = "{";
    if (t.chance(10)) { p.h.got(e.ccall("ppl_new_Congruence_System_zero_dim_empty", [&] { return ppl_new_Congruence_System_zero_dim_empty(p.h.out()); })); p.x = Congruence_System::zero_dim_empty(); s += "false; "; }
    else p.h.got(e.ccall("ppl_new_Congruence_System", [&] { return ppl_new_Congruence_System(p.h.out()); }));
    c.check("same.congruence_system", p.h.p != 0, "cannot create a congruence system");
    for (int i = 0; i < m; ++i) { PCg g; std::string gs; if (!gen_cg(g, n, &gs)) continue; s += gs + "; ";
      e.both("ppl_Congruence_System_insert_Congruence", "cgs_insert", [&] { return ppl_Congruence_System_insert_Congruence(p.h, g.h.k()); }, [&] { p.x.insert(g.x); return 0; }); g.h.free_(e); }
    if (txt) *txt = s + "}";
    if (t.chance(15)) same_Congruence_System(p.h.k(), p.x, "built");
  }
  void gen_ggs(PGgs& p, size_t n, int maxrows, bool point_first, std::string* txt = 0) {
    int m = (int) t.range(point_first ? 1 : 0, maxrows); std::string s = "{";
    p.h.got(e.ccall("ppl_new_Grid_Generator_System", [&] { return ppl_new_Grid_Generator_System(p.h.out()); })); c.check("same.grid_generator_system", p.h.p != 0, "cannot create a grid generator system");
    for (int i = 0; i < m; ++i) { PGg g; std::string gs; bool ok;
      if (i == 0 && point_first) { LEv v = gen_lev(n, false); v.b = 0; gs = "grid_point(" + v.str() + ")"; ok = mk_gg(g, v, PPL_GRID_GENERATOR_TYPE_POINT, 1); } else ok = gen_gg(g, n, &gs);
      if (!ok) continue; s += gs + "; ";
      e.both("ppl_Grid_Generator_System_insert_Grid_Generator", "ggs_insert", [&] { return ppl_Grid_Generator_System_insert_Grid_Generator(p.h, g.h.k()); }, [&] { p.x.insert(g.x); return 0; }); g.h.free_(e); }
    if (txt) *txt = s + "}";
    if (t.chance(15)) same_Grid_Generator_System(p.h.k(), p.x, "built");
  }
  // copy / assign / clear / ascii_load round trips of the systems and of the elementary objects
  void system_program(size_t n) {
    int which = (int) t.range(0, 7); std::string txt;
    switch (which) {
    case 0: { PCs a, b; gen_cs(a, n, 3, true, &txt); c.log << "  constraint system " << txt << ": copy, assign, clear\n";
      b.h.got(e.ccall("ppl_new_Constraint_System_from_Constraint_System", [&] { return ppl_new_Constraint_System_from_Constraint_System(b.h.out(), a.h.k()); })); b.x = a.x;
      c.check("same.constraint_system", b.h.p != 0, "copy failed"); same_Constraint_System(b.h.k(), b.x, "copy");
      e.both("ppl_Constraint_System_clear", "sys_clear", [&] { return ppl_Constraint_System_clear(a.h); }, [&] { a.x.clear(); return 0; }); same_Constraint_System(a.h.k(), a.x, "cleared");
      e.both("ppl_assign_Constraint_System_from_Constraint_System", "sys_assign", [&] { return ppl_assign_Constraint_System_from_Constraint_System(a.h, b.h.k()); }, [&] { a.x = b.x; return 0; }); same_Constraint_System(a.h.k(), a.x, "assigned");
      { std::ostringstream os; b.x.ascii_dump(os); int rc = e.from_string("ppl_Constraint_System_ascii_load", os.str(), [&](FILE* f) { return ppl_Constraint_System_ascii_load(a.h, f); }); c.check("same.ascii_load", rc == 0, "ppl_Constraint_System_ascii_load rejected a dump"); same_Constraint_System(a.h.k(), b.x, "loaded"); }
      a.h.free_(e); b.h.free_(e); break; }
    case 1: { PGs a, b; gen_gs(a, n, 3, true, false, &txt); c.log << "  generator system " << txt << ": copy, assign, clear\n";
      b.h.got(e.ccall("ppl_new_Generator_System_from_Generator_System", [&] { return ppl_new_Generator_System_from_Generator_System(b.h.out(), a.h.k()); })); b.x = a.x;
      c.check("same.generator_system", b.h.p != 0, "copy failed"); same_Generator_System(b.h.k(), b.x, "copy");
      e.both("ppl_Generator_System_clear", "sys_clear", [&] { return ppl_Generator_System_clear(a.h); }, [&] { a.x.clear(); return 0; }); same_Generator_System(a.h.k(), a.x, "cleared");
      e.both("ppl_assign_Generator_System_from_Generator_System", "sys_assign", [&] { return ppl_assign_Generator_System_from_Generator_System(a.h, b.h.k()); }, [&] { a.x = b.x; return 0; }); same_Generator_System(a.h.k(), a.x, "assigned");
      { HGenerator_System z; z.got(e.ccall("ppl_new_Generator_System_zero_dim_univ", [&] { return ppl_new_Generator_System_zero_dim_univ(z.out()); })); if (z.p) { same_Generator_System(z.k(), Generator_System::zero_dim_univ(), "zero_dim_univ"); z.free_(e); } }
      { PGen g; std::string gt; if (gen_gen(g, n, true, &gt)) { HGenerator_System s1; s1.got(e.ccall("ppl_new_Generator_System_from_Generator", [&] { return ppl_new_Generator_System_from_Generator(s1.out(), g.h.k()); })); if (s1.p) { same_Generator_System(s1.k(), Generator_System(g.x), "from generator"); s1.free_(e); } g.h.free_(e); } }
      a.h.free_(e); b.h.free_(e); break; }
    case 2: { PCgs a, b; gen_cgs(a, n, 3, &txt); c.log << "  congruence system " << txt << ": copy, assign, clear\n";
      b.h.got(e.ccall("ppl_new_Congruence_System_from_Congruence_System", [&] { return ppl_new_Congruence_System_from_Congruence_System(b.h.out(), a.h.k()); })); b.x = a.x;
      c.check("same.congruence_system", b.h.p != 0, "copy failed"); same_Congruence_System(b.h.k(), b.x, "copy");
      e.both("ppl_Congruence_System_clear", "sys_clear", [&] { return ppl_Congruence_System_clear(a.h); }, [&] { a.x.clear(); return 0; }); same_Congruence_System(a.h.k(), a.x, "cleared");
      e.both("ppl_assign_Congruence_System_from_Congruence_System", "sys_assign", [&] { return ppl_assign_Congruence_System_from_Congruence_System(a.h, b.h.k()); }, [&] { a.x = b.x; return 0; }); same_Congruence_System(a.h.k(), a.x, "assigned");
      { PCg g; std::string gt; if (gen_cg(g, n, &gt)) { HCongruence_System s1; s1.got(e.ccall("ppl_new_Congruence_System_from_Congruence", [&] { return ppl_new_Congruence_System_from_Congruence(s1.out(), g.h.k()); })); if (s1.p) { same_Congruence_System(s1.k(), Congruence_System(g.x), "from congruence"); s1.free_(e); } g.h.free_(e); } }
      a.h.free_(e); b.h.free_(e); break; }
    case 3: { PGgs a, b; gen_ggs(a, n, 3, false, &txt); c.log << "  grid generator system " << txt << ": copy, assign, clear\n";
      b.h.got(e.ccall("ppl_new_Grid_Generator_System_from_Grid_Generator_System", [&] { return ppl_new_Grid_Generator_System_from_Grid_Generator_System(b.h.out(), a.h.k()); })); b.x = a.x;
      c.check("same.grid_generator_system", b.h.p != 0, "copy failed"); same_Grid_Generator_System(b.h.k(), b.x, "copy");
      e.both("ppl_Grid_Generator_System_clear", "sys_clear", [&] { return ppl_Grid_Generator_System_clear(a.h); }, [&] { a.x.clear(); return 0; }); same_Grid_Generator_System(a.h.k(), a.x, "cleared");
      e.both("ppl_assign_Grid_Generator_System_from_Grid_Generator_System", "sys_assign", [&] { return ppl_assign_Grid_Generator_System_from_Grid_Generator_System(a.h, b.h.k()); }, [&] { a.x = b.x; return 0; }); same_Grid_Generator_System(a.h.k(), a.x, "assigned");
      { HGrid_Generator_System z; z.got(e.ccall("ppl_new_Grid_Generator_System_zero_dim_univ", [&] { return ppl_new_Grid_Generator_System_zero_dim_univ(z.out()); })); if (z.p) { same_Grid_Generator_System(z.k(), Grid_Generator_System::zero_dim_univ(), "zero_dim_univ"); z.free_(e); } }
      { PGg g; std::string gt; if (gen_gg(g, n, &gt)) { HGrid_Generator_System s1; s1.got(e.ccall("ppl_new_Grid_Generator_System_from_Grid_Generator", [&] { return ppl_new_Grid_Generator_System_from_Grid_Generator(s1.out(), g.h.k()); })); if (s1.p) { same_Grid_Generator_System(s1.k(), Grid_Generator_System(g.x), "from grid generator"); s1.free_(e); } g.h.free_(e); } }
      a.h.free_(e); b.h.free_(e); break; }
    case 4: { PCon a, b; std::string t1, t2; c.log << "  constraints: copy, assign, zero-dim\n"; if (gen_con(a, n, true, &t1) && gen_con(b, n, true, &t2)) {
        HConstraint cp; cp.got(e.ccall("ppl_new_Constraint_from_Constraint", [&] { return ppl_new_Constraint_from_Constraint(cp.out(), a.h.k()); })); if (cp.p) { same_con(cp.k(), a.x, "copy"); cp.free_(e); }
        e.both("ppl_assign_Constraint_from_Constraint", "elem_assign", [&] { return ppl_assign_Constraint_from_Constraint(a.h, b.h.k()); }, [&] { a.x = b.x; return 0; }); same_con(a.h.k(), a.x, "assigned"); same_con(b.h.k(), b.x, "const source");
        { std::ostringstream os; b.x.ascii_dump(os); int rc = e.from_string("ppl_Constraint_ascii_load", os.str(), [&](FILE* f) { return ppl_Constraint_ascii_load(a.h, f); }); c.check("same.ascii_load", rc == 0, "ppl_Constraint_ascii_load rejected a dump"); same_con(a.h.k(), b.x, "loaded"); } }
      { HConstraint z; z.got(e.ccall("ppl_new_Constraint_zero_dim_false", [&] { return ppl_new_Constraint_zero_dim_false(z.out()); })); if (z.p) { same_con(z.k(), Constraint::zero_dim_false(), "zero_dim_false"); z.free_(e); } }
      { HConstraint z; z.got(e.ccall("ppl_new_Constraint_zero_dim_positivity", [&] { return ppl_new_Constraint_zero_dim_positivity(z.out()); })); if (z.p) { same_con(z.k(), Constraint::zero_dim_positivity(), "zero_dim_positivity"); z.free_(e); } }
      a.h.free_(e); b.h.free_(e); break; }
    case 5: { PGen a, b; c.log << "  generators: copy, assign, zero-dim\n"; if (gen_gen(a, n, true) && gen_gen(b, n, true)) {
        HGenerator cp; cp.got(e.ccall("ppl_new_Generator_from_Generator", [&] { return ppl_new_Generator_from_Generator(cp.out(), a.h.k()); })); if (cp.p) { same_gen(cp.k(), a.x, "copy"); cp.free_(e); }
        e.both("ppl_assign_Generator_from_Generator", "elem_assign", [&] { return ppl_assign_Generator_from_Generator(a.h, b.h.k()); }, [&] { a.x = b.x; return 0; }); same_gen(a.h.k(), a.x, "assigned"); same_gen(b.h.k(), b.x, "const source"); }
      { HGenerator z; z.got(e.ccall("ppl_new_Generator_zero_dim_point", [&] { return ppl_new_Generator_zero_dim_point(z.out()); })); if (z.p) { same_gen(z.k(), Generator::zero_dim_point(), "zero_dim_point"); z.free_(e); } }
      { HGenerator z; z.got(e.ccall("ppl_new_Generator_zero_dim_closure_point", [&] { return ppl_new_Generator_zero_dim_closure_point(z.out()); })); if (z.p) { same_gen(z.k(), Generator::zero_dim_closure_point(), "zero_dim_closure_point"); z.free_(e); } }
      a.h.free_(e); b.h.free_(e); break; }
    case 6: { PCg a, b; c.log << "  congruences: copy, assign, zero-dim\n"; if (gen_cg(a, n) && gen_cg(b, n)) {
        HCongruence cp; cp.got(e.ccall("ppl_new_Congruence_from_Congruence", [&] { return ppl_new_Congruence_from_Congruence(cp.out(), a.h.k()); })); if (cp.p) { same_cg(cp.k(), a.x, "copy"); cp.free_(e); }
        e.both("ppl_assign_Congruence_from_Congruence", "elem_assign", [&] { return ppl_assign_Congruence_from_Congruence(a.h, b.h.k()); }, [&] { a.x = b.x; return 0; }); same_cg(a.h.k(), a.x, "assigned"); same_cg(b.h.k(), b.x, "const source"); }
      { HCongruence z; z.got(e.ccall("ppl_new_Congruence_zero_dim_false", [&] { return ppl_new_Congruence_zero_dim_false(z.out()); })); if (z.p) { same_cg(z.k(), Congruence::zero_dim_false(), "zero_dim_false"); z.free_(e); } }
      { HCongruence z; z.got(e.ccall("ppl_new_Congruence_zero_dim_integrality", [&] { return ppl_new_Congruence_zero_dim_integrality(z.out()); })); if (z.p) { same_cg(z.k(), Congruence::zero_dim_integrality(), "zero_dim_integrality"); z.free_(e); } }
      a.h.free_(e); b.h.free_(e); break; }
    default: { PGg a, b; c.log << "  grid generators: copy, assign, zero-dim\n"; if (gen_gg(a, n) && gen_gg(b, n)) {
        HGrid_Generator cp; cp.got(e.ccall("ppl_new_Grid_Generator_from_Grid_Generator", [&] { return ppl_new_Grid_Generator_from_Grid_Generator(cp.out(), a.h.k()); })); if (cp.p) { same_gg(cp.k(), a.x, "copy"); cp.free_(e); }
        e.both("ppl_assign_Grid_Generator_from_Grid_Generator", "elem_assign", [&] { return ppl_assign_Grid_Generator_from_Grid_Generator(a.h, b.h.k()); }, [&] { a.x = b.x; return 0; }); same_gg(a.h.k(), a.x, "assigned"); same_gg(b.h.k(), b.x, "const source"); }
      { HGrid_Generator z; z.got(e.ccall("ppl_new_Grid_Generator_zero_dim_point", [&] { return ppl_new_Grid_Generator_zero_dim_point(z.out()); })); if (z.p) { same_gg(z.k(), Grid_Generator::zero_dim_point(), "zero_dim_point"); z.free_(e); } }
      a.h.free_(e); b.h.free_(e); break; }
    }
  }
};

// ------------------------------------------------------------------ the interfaced domains
#define C20_NONE(M)
typedef Pointset_Powerset<C_Polyhedron> X_PSet;
typedef Domain_Product<C_Polyhedron, Grid>::Constraints_Product X_Prod;
typedef BD_Shape<mpq_class> X_BDS;
typedef Octagonal_Shape<mpz_class> X_Oct;
#define C20_DOMAIN_BODY 1

#define C20_POLY_W(M) M(BHRZ03_widening_assign) M(H79_widening_assign)
#define C20_POLY_L(M) M(limited_BHRZ03_extrapolation_assign) M(bounded_BHRZ03_extrapolation_assign) M(limited_H79_extrapolation_assign) M(bounded_H79_extrapolation_assign)
#define C20_RESET_DOM "c20_cint.cc"

// C_Polyhedron
#define DOM_NAME CPoly
#define DOM_CT C_Polyhedron
#define DOM_OT Polyhedron
#define DOM_X C_Polyhedron
#define DOM_NNC 0
#define DOM_BOX 0
#define DOM_BIGDIM 1
#define DOM_LINPART 1
#define DOM_RECYCLE_ARG , Recycle_Input()
#define DOM_POLY 1
#define DOM_GRID 0
#define DOM_PSET 0
#define DOM_GETCS 1
#define DOM_RECYCLE 1
#define DOM_ASSIGN 1
#define DOM_WIDEN 1
#define DOM_SIMPLIFY 1
#define DOM_CIP 1
#define DOM_FREQ 1
#define DOM_GENSYS 1
#define DOM_WRAP 1
#define DOM_NARROW 0
#define DOM_WIDENINGS(M) C20_POLY_W(M)
#define DOM_LIMITED(M) C20_POLY_L(M)
#if C20_HAS_DOM(1)
#include "c20_cint.cc"
void c20_run_CPoly(Env& e, Basics& b) { Prog_CPoly p(e, b); p.run(); }
#endif
#undef DOM_NAME
#undef DOM_CT
#undef DOM_X
#undef DOM_NNC
// NNC_Polyhedron
#define DOM_NAME NNCPoly
#define DOM_CT NNC_Polyhedron
#define DOM_X NNC_Polyhedron
#define DOM_NNC 1
#undef DOM_LINPART
#define DOM_LINPART 0
#if C20_HAS_DOM(2)
#include "c20_cint.cc"
void c20_run_NNCPoly(Env& e, Basics& b) { Prog_NNCPoly p(e, b); p.run(); }
#endif
#undef DOM_NAME
#undef DOM_CT
#undef DOM_OT
#undef DOM_X
#undef DOM_NNC
#undef DOM_POLY
#undef DOM_GRID
#undef DOM_GENSYS
#undef DOM_WIDENINGS
#undef DOM_LIMITED
// Grid
#define DOM_NAME Grid
#undef DOM_LINPART
#define DOM_LINPART 0
#define DOM_CT Grid
#define DOM_OT Grid
#define DOM_X Grid
#define DOM_NNC 0
#define DOM_POLY 0
#define DOM_GRID 1
#define DOM_GENSYS 0
#define DOM_WIDENINGS(M) M(congruence_widening_assign) M(generator_widening_assign)
#define DOM_LIMITED(M)
#if C20_HAS_DOM(3)
#include "c20_cint.cc"
void c20_run_Grid(Env& e, Basics& b) { Prog_Grid p(e, b); p.run(); }
#endif
#undef DOM_NAME
#undef DOM_CT
#undef DOM_OT
#undef DOM_X
#undef DOM_GRID
#undef DOM_GENSYS
#undef DOM_NARROW
#undef DOM_WIDENINGS
#undef DOM_LIMITED
// Rational_Box
#define DOM_NAME RBox
#undef DOM_BOX
#define DOM_BOX 1
#undef DOM_LINPART
#define DOM_LINPART 1
#undef DOM_RECYCLE_ARG
#define DOM_RECYCLE_ARG
#define DOM_CT Rational_Box
#define DOM_OT Rational_Box
#define DOM_X Rational_Box
#define DOM_GRID 0
#define DOM_GENSYS 1
#define DOM_NARROW 1
#define DOM_WIDENINGS(M) M(CC76_widening_assign)
#define DOM_LIMITED(M) M(limited_CC76_extrapolation_assign)
#if C20_HAS_DOM(4)
#include "c20_cint.cc"
void c20_run_RBox(Env& e, Basics& b) { Prog_RBox p(e, b); p.run(); }
#endif
#undef DOM_NAME
#undef DOM_CT
#undef DOM_OT
#undef DOM_X
#undef DOM_WIDENINGS
#undef DOM_LIMITED
// BD_Shape<mpq_class>
#define DOM_NAME BDS
#undef DOM_BOX
#define DOM_BOX 0
#undef DOM_BIGDIM
#define DOM_BIGDIM 0
#define DOM_CT BD_Shape_mpq_class
#define DOM_OT BD_Shape_mpq_class
#define DOM_X X_BDS
#define DOM_WIDENINGS(M) M(BHMZ05_widening_assign) M(H79_widening_assign) M(CC76_extrapolation_assign)
#define DOM_LIMITED(M) M(limited_BHMZ05_extrapolation_assign) M(limited_H79_extrapolation_assign) M(limited_CC76_extrapolation_assign)
#if C20_HAS_DOM(5)
#include "c20_cint.cc"
void c20_run_BDS(Env& e, Basics& b) { Prog_BDS p(e, b); p.run(); }
#endif
#undef DOM_NAME
#undef DOM_CT
#undef DOM_OT
#undef DOM_X
#undef DOM_WIDENINGS
#undef DOM_LIMITED
// Octagonal_Shape<mpz_class>
#define DOM_NAME Oct
#define DOM_CT Octagonal_Shape_mpz_class
#define DOM_OT Octagonal_Shape_mpz_class
#define DOM_X X_Oct
#define DOM_WIDENINGS(M) M(BHMZ05_widening_assign) M(CC76_extrapolation_assign)
#define DOM_LIMITED(M) M(limited_BHMZ05_extrapolation_assign) M(limited_CC76_extrapolation_assign)
#if C20_HAS_DOM(6)
#include "c20_cint.cc"
void c20_run_Oct(Env& e, Basics& b) { Prog_Oct p(e, b); p.run(); }
#endif
#undef DOM_NAME
#undef DOM_CT
#undef DOM_OT
#undef DOM_X
#undef DOM_WIDENINGS
#undef DOM_LIMITED
#undef DOM_GETCS
#undef DOM_RECYCLE
#undef DOM_ASSIGN
#undef DOM_WIDEN
#undef DOM_FREQ
#undef DOM_GENSYS
#undef DOM_WRAP
#undef DOM_NARROW
#undef DOM_PSET
// Pointset_Powerset<C_Polyhedron>
#define DOM_NAME PSet
#undef DOM_LINPART
#define DOM_LINPART 0
#define DOM_CT Pointset_Powerset_C_Polyhedron
#define DOM_OT Pointset_Powerset_C_Polyhedron
#define DOM_X X_PSet
#define DOM_PSET 1
#define DOM_GETCS 0
#define DOM_RECYCLE 0
#define DOM_ASSIGN 0
#define DOM_WIDEN 0
#define DOM_FREQ 0
#define DOM_GENSYS 0
#define DOM_WRAP 0
#define DOM_NARROW 0
#define DOM_WIDENINGS(M)
#define DOM_LIMITED(M)
#if C20_HAS_DOM(7)
#include "c20_cint.cc"
void c20_run_PSet(Env& e, Basics& b) { Prog_PSet p(e, b); p.run(); }
#endif
#undef DOM_NAME
#undef DOM_CT
#undef DOM_OT
#undef DOM_X
#undef DOM_PSET
#undef DOM_WIDEN
#undef DOM_SIMPLIFY
#undef DOM_CIP
// Constraints_Product<C_Polyhedron, Grid>
#define DOM_NAME Prod
#define DOM_CT Constraints_Product_C_Polyhedron_Grid
#define DOM_OT Constraints_Product_C_Polyhedron_Grid
#define DOM_X X_Prod
#define DOM_PSET 0
#define DOM_WIDEN 1
#define DOM_SIMPLIFY 0
#define DOM_CIP 0
#if C20_HAS_DOM(8)
#include "c20_cint.cc"
void c20_run_Prod(Env& e, Basics& b) { Prog_Prod p(e, b); p.run(); }
#endif
#undef C20_DOMAIN_BODY

void c20_run_CPoly(Env& e, Basics& b);
void c20_run_NNCPoly(Env& e, Basics& b);
void c20_run_Grid(Env& e, Basics& b);
void c20_run_RBox(Env& e, Basics& b);
void c20_run_BDS(Env& e, Basics& b);
void c20_run_Oct(Env& e, Basics& b);
void c20_run_PSet(Env& e, Basics& b);
void c20_run_Prod(Env& e, Basics& b);
#if C20_MAIN_PART

// ------------------------------------------------------------------ MIP_Problem
static void mip_program(Env& e, Basics& b) {
  vf::Ctx& c = e.c; vf::Tape& t = e.t; size_t n = (size_t) t.range(1, 3); std::string txt;
  HMIP_Problem h; MIP_Problem x(n); c.log << "MIP problem, dimension " << n << "\n"; b.small_only = true;
  auto dump_same = [&](const char* where) { int rc; std::string a = e.via_file("ppl_MIP_Problem_ascii_dump", [&](FILE* f) { return ppl_MIP_Problem_ascii_dump(h.k(), f); }, &rc); std::ostringstream os; x.ascii_dump(os);
    c.check("same.state.mip", rc == 0 && a == os.str(), [&] { return std::string("MIP problem after ") + where + ": handle differs from the twin\n" + a + "--- C++:\n" + os.str(); }); };
  if (t.chance(50)) { PCs cs; b.gen_cs(cs, n, 4, false, &txt); LEv le = b.gen_lev(n); PLe l; b.mk_le(l, le); int mode = t.chance(50) ? PPL_OPTIMIZATION_MODE_MAXIMIZATION : PPL_OPTIMIZATION_MODE_MINIMIZATION;
    c.log << "  new MIP_Problem(" << n << ", " << txt << ", " << le.str() << ", " << (mode == PPL_OPTIMIZATION_MODE_MAXIMIZATION ? "max" : "min") << ")\n";
    int rc = e.both("ppl_new_MIP_Problem", "mip_new", [&] { return ppl_new_MIP_Problem(h.out(), n, cs.h.k(), l.h.k(), mode); }, [&] { x = MIP_Problem(n, cs.x, l.x, mode == PPL_OPTIMIZATION_MODE_MAXIMIZATION ? MAXIMIZATION : MINIMIZATION); return 0; }); h.got(rc); cs.h.free_(e); l.h.free_(e); }
  if (!h.p) { int rc = e.both("ppl_new_MIP_Problem_from_space_dimension", "mip_new", [&] { return ppl_new_MIP_Problem_from_space_dimension(h.out(), n); }, [&] { x = MIP_Problem(n); return 0; }); h.got(rc); c.check("same.ret.mip_new", h.p != 0, "cannot create a MIP problem"); c.log << "  new MIP_Problem(" << n << ")\n"; }
  dump_same("construction");
  int steps = (int) t.range(3, 10);
  for (int s = 0; s < steps && !t.exhausted(); ++s) {
    int op = t.weighted({14, 8, 8, 6, 8, 12, 10, 8, 6, 5, 5, 5, 5}); size_t d = x.space_dimension();
    // branch-and-bound need not terminate on unbounded problems with integer variables (base library): no solving then
    if (!x.integer_space_dimensions().empty() && (op == 5 || op == 6 || op == 7 || op == 12)) op = 8;
    switch (op) {
    case 0: { PCon k; if (!b.gen_con(k, d, t.chance(5), &txt)) break; c.log << "  add_constraint " << txt << "\n"; e.both("ppl_MIP_Problem_add_constraint", "mip_add", [&] { return ppl_MIP_Problem_add_constraint(h, k.h.k()); }, [&] { x.add_constraint(k.x); return 0; }); k.h.free_(e); break; }
    case 1: { PCs cs; b.gen_cs(cs, d, 3, t.chance(5), &txt); c.log << "  add_constraints " << txt << "\n"; e.both("ppl_MIP_Problem_add_constraints", "mip_add", [&] { return ppl_MIP_Problem_add_constraints(h, cs.h.k()); }, [&] { x.add_constraints(cs.x); return 0; }); cs.h.free_(e); break; }
    case 2: { LEv le = b.gen_lev(d); PLe l; b.mk_le(l, le); c.log << "  set_objective_function " << le.str() << "\n"; e.both("ppl_MIP_Problem_set_objective_function", "mip_set", [&] { return ppl_MIP_Problem_set_objective_function(h, l.h.k()); }, [&] { x.set_objective_function(l.x); return 0; }); l.h.free_(e); break; }
    case 3: { int mode = t.chance(50) ? PPL_OPTIMIZATION_MODE_MAXIMIZATION : PPL_OPTIMIZATION_MODE_MINIMIZATION; c.log << "  set_optimization_mode " << mode << "\n"; e.both("ppl_MIP_Problem_set_optimization_mode", "mip_set", [&] { return ppl_MIP_Problem_set_optimization_mode(h, mode); }, [&] { x.set_optimization_mode(mode == PPL_OPTIMIZATION_MODE_MAXIMIZATION ? MAXIMIZATION : MINIMIZATION); return 0; });
      e.both("ppl_MIP_Problem_optimization_mode", "mip_query", [&] { return ppl_MIP_Problem_optimization_mode(h.k()); }, [&] { return (int) x.optimization_mode(); }); break; }
    case 4: { std::vector<ppl_dimension_type> vs; for (size_t i = 0; i < d; ++i) if (t.chance(40)) vs.push_back(i); if (t.chance(5)) vs.push_back(d); Variables_Set s; for (size_t k : vs) s.insert(k); c.log << "  add_to_integer_space_dimensions (" << vs.size() << " vars)\n";
      e.both("ppl_MIP_Problem_add_to_integer_space_dimensions", "mip_set", [&] { return ppl_MIP_Problem_add_to_integer_space_dimensions(h, vs.data(), vs.size()); }, [&] { x.add_to_integer_space_dimensions(s); return 0; });
      ppl_dimension_type m = 999; e.ccall("ppl_MIP_Problem_number_of_integer_space_dimensions", [&] { return ppl_MIP_Problem_number_of_integer_space_dimensions(h.k(), &m); }); c.check("same.out.mip", m == x.integer_space_dimensions().size(), "number_of_integer_space_dimensions differs");
      std::vector<ppl_dimension_type> got(m + 1, 777); e.ccall("ppl_MIP_Problem_integer_space_dimensions", [&] { return ppl_MIP_Problem_integer_space_dimensions(h.k(), got.data()); }); size_t i = 0; bool ok = got[m] == 777; for (Variables_Set::const_iterator v = x.integer_space_dimensions().begin(); v != x.integer_space_dimensions().end(); ++v, ++i) ok = ok && got[i] == *v;
      c.check("same.out.mip", ok, "integer_space_dimensions differ"); break; }
    case 5: { c.log << "  solve\n"; int r = e.both("ppl_MIP_Problem_solve", "mip_solve", [&] { return ppl_MIP_Problem_solve(h.k()); }, [&] { return (int) x.solve(); });
      c.check("same.out.mip", PPL_MIP_PROBLEM_STATUS_UNFEASIBLE == UNFEASIBLE_MIP_PROBLEM && PPL_MIP_PROBLEM_STATUS_UNBOUNDED == UNBOUNDED_MIP_PROBLEM && PPL_MIP_PROBLEM_STATUS_OPTIMIZED == OPTIMIZED_MIP_PROBLEM, "status constants differ");
      c.log << "      -> " << r << "\n"; if (r >= 0) c.nt(); break; }
    case 6: { c.log << "  optimizing_point / optimal_value / evaluate\n"; ppl_const_Generator_t g = 0; const Generator* xg = 0;
      int r = e.both("ppl_MIP_Problem_optimizing_point", "mip_point", [&] { return ppl_MIP_Problem_optimizing_point(h.k(), &g); }, [&] { xg = &x.optimizing_point(); return 0; });
      if (r == 0) { b.same_gen(g, *xg, "optimizing point"); HCoefficient cn, cd; b.mk_coef(cn, 5); b.mk_coef(cd, 7); Coefficient xn, xd;
        int r2 = e.both("ppl_MIP_Problem_optimal_value", "mip_point", [&] { return ppl_MIP_Problem_optimal_value(h.k(), cn, cd); }, [&] { x.optimal_value(xn, xd); return 0; });
        if (r2 == 0) c.check("same.out.mip", b.rd(cn.k()) == mpz_class(xn) && b.rd(cd.k()) == mpz_class(xd), "optimal_value differs");
        r2 = e.both("ppl_MIP_Problem_evaluate_objective_function", "mip_point", [&] { return ppl_MIP_Problem_evaluate_objective_function(h.k(), g, cn, cd); }, [&] { x.evaluate_objective_function(*xg, xn, xd); return 0; });
        if (r2 == 0) c.check("same.out.mip", b.rd(cn.k()) == mpz_class(xn) && b.rd(cd.k()) == mpz_class(xd), "evaluate_objective_function differs"); cn.free_(e); cd.free_(e); }
      break; }
    case 7: { c.log << "  is_satisfiable / feasible_point\n"; int r = e.both("ppl_MIP_Problem_is_satisfiable", "mip_solve", [&] { return ppl_MIP_Problem_is_satisfiable(h.k()); }, [&] { return x.is_satisfiable() ? 1 : 0; }); (void) r;
      ppl_const_Generator_t g = 0; const Generator* xg = 0; int r2 = e.both("ppl_MIP_Problem_feasible_point", "mip_point", [&] { return ppl_MIP_Problem_feasible_point(h.k(), &g); }, [&] { xg = &x.feasible_point(); return 0; }); if (r2 == 0) b.same_gen(g, *xg, "feasible point"); break; }
    case 8: { c.log << "  constraints / objective readback\n"; ppl_dimension_type m = 999, sd = 999; e.ccall("ppl_MIP_Problem_number_of_constraints", [&] { return ppl_MIP_Problem_number_of_constraints(h.k(), &m); }); e.ccall("ppl_MIP_Problem_space_dimension", [&] { return ppl_MIP_Problem_space_dimension(h.k(), &sd); });
      size_t xm = x.constraints_end() - x.constraints_begin(); c.check("same.out.mip", m == xm && sd == x.space_dimension(), "number_of_constraints / space_dimension differ");
      for (size_t i = 0; i < m && i < xm; ++i) { ppl_const_Constraint_t k = 0; int r = e.ccall("ppl_MIP_Problem_constraint_at_index", [&] { return ppl_MIP_Problem_constraint_at_index(h.k(), i, &k); }); c.check("same.out.mip", r == 0 && k, "constraint_at_index failed"); b.same_con(k, *(x.constraints_begin() + i), "constraint_at_index"); }
      ppl_const_Linear_Expression_t le = 0; int r = e.ccall("ppl_MIP_Problem_objective_function", [&] { return ppl_MIP_Problem_objective_function(h.k(), &le); }); c.check("same.out.mip", r == 0 && le, "objective_function failed"); b.same_le(le, x.objective_function(), "objective function");
      e.both("ppl_MIP_Problem_OK", "mip_query", [&] { return ppl_MIP_Problem_OK(h.k()); }, [&] { return x.OK() ? 1 : 0; });
      size_t tot = 0, ext = 0; e.ccall("ppl_MIP_Problem_total_memory_in_bytes", [&] { return ppl_MIP_Problem_total_memory_in_bytes(h.k(), &tot); }); e.ccall("ppl_MIP_Problem_external_memory_in_bytes", [&] { return ppl_MIP_Problem_external_memory_in_bytes(h.k(), &ext); }); c.check("same.out.mip", tot == ext + sizeof(MIP_Problem), "total/external memory inconsistent");
      b.same_print("MIP_Problem", [&](char** s) { return ppl_io_asprint_MIP_Problem(s, h.k()); }, x); break; }
    case 9: { size_t m = (size_t) t.range(0, 2); if (d + m > 5) m = 0; c.log << "  add_space_dimensions_and_embed " << m << "\n"; e.both("ppl_MIP_Problem_add_space_dimensions_and_embed", "mip_set", [&] { return ppl_MIP_Problem_add_space_dimensions_and_embed(h, m); }, [&] { x.add_space_dimensions_and_embed(m); return 0; }); break; }
    case 10: { c.log << "  copy / assign\n"; HMIP_Problem cp; MIP_Problem xc(x); int rc = e.ccall("ppl_new_MIP_Problem_from_MIP_Problem", [&] { return ppl_new_MIP_Problem_from_MIP_Problem(cp.out(), h.k()); }); cp.got(rc); c.check("same.ret.mip_new", rc == 0, "copy failed");
      if (t.chance(50)) { e.both("ppl_MIP_Problem_clear", "mip_set", [&] { return ppl_MIP_Problem_clear(h); }, [&] { x.clear(); return 0; }); dump_same("clear"); }
      e.both("ppl_assign_MIP_Problem_from_MIP_Problem", "mip_set", [&] { return ppl_assign_MIP_Problem_from_MIP_Problem(h, cp.k()); }, [&] { x = xc; return 0; }); cp.free_(e); break; }
    case 11: { int v = t.pick(std::vector<int>{ PPL_MIP_PROBLEM_CONTROL_PARAMETER_PRICING_TEXTBOOK, PPL_MIP_PROBLEM_CONTROL_PARAMETER_PRICING_STEEPEST_EDGE_EXACT, PPL_MIP_PROBLEM_CONTROL_PARAMETER_PRICING_STEEPEST_EDGE_FLOAT }); c.log << "  set_control_parameter " << v << "\n";
      e.both("ppl_MIP_Problem_set_control_parameter", "mip_set", [&] { return ppl_MIP_Problem_set_control_parameter(h, v); }, [&] { x.set_control_parameter((MIP_Problem::Control_Parameter_Value) v); return 0; });
      e.both("ppl_MIP_Problem_get_control_parameter", "mip_query", [&] { return ppl_MIP_Problem_get_control_parameter(h.k(), PPL_MIP_PROBLEM_CONTROL_PARAMETER_NAME_PRICING); }, [&] { return (int) x.get_control_parameter(MIP_Problem::PRICING); }); break; }
    default: { // deterministic timeout around solve on a copy
      HMIP_Problem cp; int rc = e.ccall("ppl_new_MIP_Problem_from_MIP_Problem", [&] { return ppl_new_MIP_Problem_from_MIP_Problem(cp.out(), h.k()); }); cp.got(rc); if (!cp.p) break; unsigned long w = (unsigned long) t.range(1, 20); c.log << "  solve a copy under deterministic timeout " << w << "\n";
      e.ccall("ppl_set_deterministic_timeout", [&] { return ppl_set_deterministic_timeout(w, 0); }); int r = e.ccall("ppl_MIP_Problem_solve", [&] { return ppl_MIP_Problem_solve(cp.k()); });
      e.ccall("ppl_reset_deterministic_timeout", [&] { return ppl_reset_deterministic_timeout(); });
      c.check("timeout.code", r >= 0 || r == PPL_TIMEOUT_EXCEPTION, [&] { return "ppl_MIP_Problem_solve under a deterministic timeout returned " + std::to_string(r); }); if (r == PPL_TIMEOUT_EXCEPTION) c.tag("timeout expired"); cp.free_(e); break; }
    }
    dump_same("step");
  }
  if (e.err_paths) c.nt();
  h.free_(e);
}

// ------------------------------------------------------------------ PIP_Problem
struct PipCmp {
  Env& e; Basics& b; vf::Ctx& c;
  void node(ppl_const_PIP_Tree_Node_t h, const PIP_Tree_Node* x, int depth) {
    c.check("same.pip.tree", (h != 0) == (x != 0), "one tree has a node (bottom) where the other has none"); if (!x || depth > 6) return;
    e.both("ppl_PIP_Tree_Node_OK", "pip_query", [&] { return ppl_PIP_Tree_Node_OK(h); }, [&] { return x->OK() ? 1 : 0; });
    ppl_const_Constraint_System_t cs = 0; e.ccall("ppl_PIP_Tree_Node_get_constraints", [&] { return ppl_PIP_Tree_Node_get_constraints(h, &cs); }); b.same_Constraint_System(cs, x->constraints(), "tree node constraints");
    ppl_dimension_type na = 999; e.ccall("ppl_PIP_Tree_Node_number_of_artificials", [&] { return ppl_PIP_Tree_Node_number_of_artificials(h, &na); }); c.check("same.pip.tree", na == x->art_parameter_count(), "number_of_artificials differs");
    { HArtificial_Parameter_Sequence_const_iterator it, end; it.got(e.ccall("ppl_new_Artificial_Parameter_Sequence_const_iterator", [&] { return ppl_new_Artificial_Parameter_Sequence_const_iterator(it.out()); })); end.got(e.ccall("ppl_new_Artificial_Parameter_Sequence_const_iterator", [&] { return ppl_new_Artificial_Parameter_Sequence_const_iterator(end.out()); }));
      e.ccall("ppl_PIP_Tree_Node_begin", [&] { return ppl_PIP_Tree_Node_begin(h, it); }); e.ccall("ppl_PIP_Tree_Node_end", [&] { return ppl_PIP_Tree_Node_end(h, end); });
      PIP_Tree_Node::Artificial_Parameter_Sequence::const_iterator xi = x->art_parameter_begin(), xe = x->art_parameter_end();
      for (; ; ++xi) { int at_end = e.ccall("ppl_Artificial_Parameter_Sequence_const_iterator_equal_test", [&] { return ppl_Artificial_Parameter_Sequence_const_iterator_equal_test(it.k(), end.k()); }); c.check("same.pip.tree", (at_end > 0) == (xi == xe), "artificial parameter iteration out of step"); if (xi == xe) break;
        ppl_const_Artificial_Parameter_t ap = 0; e.ccall("ppl_Artificial_Parameter_Sequence_const_iterator_dereference", [&] { return ppl_Artificial_Parameter_Sequence_const_iterator_dereference(it.k(), &ap); });
        HCoefficient k; k.got(e.ccall("ppl_new_Coefficient", [&] { return ppl_new_Coefficient(k.out()); })); e.ccall("ppl_Artificial_Parameter_denominator", [&] { return ppl_Artificial_Parameter_denominator(ap, k); }); c.check("same.pip.tree", b.rd(k.k()) == mpz_class(xi->denominator()), "artificial parameter denominator differs");
        e.ccall("ppl_Artificial_Parameter_inhomogeneous_term", [&] { return ppl_Artificial_Parameter_inhomogeneous_term(ap, k); }); c.check("same.pip.tree", b.rd(k.k()) == mpz_class(xi->inhomogeneous_term()), "artificial parameter inhomogeneous term differs");
        for (size_t v = 0; v < xi->space_dimension(); ++v) { e.ccall("ppl_Artificial_Parameter_coefficient", [&] { return ppl_Artificial_Parameter_coefficient(ap, v, k); }); c.check("same.pip.tree", b.rd(k.k()) == mpz_class(xi->coefficient(Variable(v))), "artificial parameter coefficient differs"); }
        k.free_(e); HLinear_Expression le; le.got(e.ccall("ppl_new_Linear_Expression", [&] { return ppl_new_Linear_Expression(le.out()); })); e.ccall("ppl_Artificial_Parameter_get_Linear_Expression", [&] { return ppl_Artificial_Parameter_get_Linear_Expression(ap, le); }); b.same_le(le.k(), Linear_Expression(*xi), "artificial parameter"); le.free_(e);
        b.same_print("Artificial_Parameter", [&](char** s) { return ppl_io_asprint_Artificial_Parameter(s, ap); }, *xi);
        e.ccall("ppl_Artificial_Parameter_Sequence_const_iterator_increment", [&] { return ppl_Artificial_Parameter_Sequence_const_iterator_increment(it); }); }
      it.free_(e); end.free_(e); }
    ppl_const_PIP_Solution_Node_t hs = 0; ppl_const_PIP_Decision_Node_t hd = 0;
    e.ccall("ppl_PIP_Tree_Node_as_solution", [&] { return ppl_PIP_Tree_Node_as_solution(h, &hs); }); e.ccall("ppl_PIP_Tree_Node_as_decision", [&] { return ppl_PIP_Tree_Node_as_decision(h, &hd); });
    const PIP_Solution_Node* xs = x->as_solution(); const PIP_Decision_Node* xd = x->as_decision();
    c.check("same.pip.tree", (hs != 0) == (xs != 0) && (hd != 0) == (xd != 0), "node kinds differ");
    b.same_print("PIP_Tree_Node", [&](char** s) { return ppl_io_asprint_PIP_Tree_Node(s, h); }, *x);
    if (xs) { e.both("ppl_PIP_Solution_Node_OK", "pip_query", [&] { return ppl_PIP_Solution_Node_OK(hs); }, [&] { return xs->OK() ? 1 : 0; }); vars_of(hs, xs); }
    if (xd) { e.both("ppl_PIP_Decision_Node_OK", "pip_query", [&] { return ppl_PIP_Decision_Node_OK(hd); }, [&] { return xd->OK() ? 1 : 0; });
      for (int br = 0; br < 2; ++br) { ppl_const_PIP_Tree_Node_t ch = 0; e.ccall("ppl_PIP_Decision_Node_get_child_node", [&] { return ppl_PIP_Decision_Node_get_child_node(hd, br, &ch); }); node(ch, xd->child_node(br != 0), depth + 1); } }
  }
  const PIP_Problem* prob = 0;
  void vars_of(ppl_const_PIP_Solution_Node_t hs, const PIP_Solution_Node* xs) {
    size_t d = prob->space_dimension(); const Variables_Set& ps = prob->parameter_space_dimensions();
    for (size_t v = 0; v <= d; ++v) { if (v == d && d > 0 && !e.t.chance(20)) break; bool is_param = ps.count(v) != 0; if (is_param && !e.t.chance(20)) continue;
      ppl_const_Linear_Expression_t le = 0; const Linear_Expression* xl = 0;
      int r = e.both("ppl_PIP_Solution_Node_get_parametric_values", "pip_values", [&] { return ppl_PIP_Solution_Node_get_parametric_values(hs, v, &le); }, [&] { xl = &xs->parametric_values(Variable(v)); return 0; });
      if (r == 0) b.same_le(le, *xl, "parametric values"); }
  }
};
static void pip_program(Env& e, Basics& b) {
  vf::Ctx& c = e.c; vf::Tape& t = e.t; size_t n = (size_t) t.range(1, 3); std::string txt; HPIP_Problem h; PIP_Problem x(n); c.log << "PIP problem, dimension " << n << "\n"; b.small_only = true;
  std::vector<ppl_dimension_type> ps; for (size_t i = 0; i < n; ++i) if (t.chance(35)) ps.push_back(i); if (t.chance(4)) ps.push_back(n); Variables_Set xps; for (size_t k : ps) xps.insert(k);
  auto dump_same = [&](const char* where) { int rc; std::string a = e.via_file("ppl_PIP_Problem_ascii_dump", [&](FILE* f) { return ppl_PIP_Problem_ascii_dump(h.k(), f); }, &rc); std::ostringstream os; x.ascii_dump(os);
    c.check("same.state.pip", rc == 0 && a == os.str(), [&] { return std::string("PIP problem after ") + where + ": handle differs from the twin\n" + a + "--- C++:\n" + os.str(); }); };
  if (t.chance(50)) { PCs cs; b.gen_cs(cs, n, 4, false, &txt); HConstraint_System_const_iterator first, last;
    first.got(e.ccall("ppl_new_Constraint_System_const_iterator", [&] { return ppl_new_Constraint_System_const_iterator(first.out()); })); last.got(e.ccall("ppl_new_Constraint_System_const_iterator", [&] { return ppl_new_Constraint_System_const_iterator(last.out()); }));
    e.ccall("ppl_Constraint_System_begin", [&] { return ppl_Constraint_System_begin(cs.h.k(), first); }); e.ccall("ppl_Constraint_System_end", [&] { return ppl_Constraint_System_end(cs.h.k(), last); });
    c.log << "  new PIP_Problem from constraints " << txt << " with " << ps.size() << " parameter(s)\n";
    int rc = e.both("ppl_new_PIP_Problem_from_constraints", "pip_new", [&] { return ppl_new_PIP_Problem_from_constraints(h.out(), n, first, last, ps.size(), ps.data()); }, [&] { x = PIP_Problem(n, cs.x.begin(), cs.x.end(), xps); return 0; }); h.got(rc);
    first.free_(e); last.free_(e); cs.h.free_(e); }
  if (!h.p) { int rc = e.both("ppl_new_PIP_Problem_from_space_dimension", "pip_new", [&] { return ppl_new_PIP_Problem_from_space_dimension(h.out(), n); }, [&] { x = PIP_Problem(n); return 0; }); h.got(rc); c.check("same.ret.pip_new", h.p != 0, "cannot create a PIP problem"); c.log << "  new PIP_Problem(" << n << ")\n";
    e.both("ppl_PIP_Problem_add_to_parameter_space_dimensions", "pip_set", [&] { return ppl_PIP_Problem_add_to_parameter_space_dimensions(h, ps.data(), ps.size()); }, [&] { x.add_to_parameter_space_dimensions(xps); return 0; }); }
  dump_same("construction");
  int steps = (int) t.range(2, 8);
  for (int s = 0; s < steps && !t.exhausted(); ++s) {
    int op = t.weighted({16, 8, 14, 8, 6, 6, 5, 5}); size_t d = x.space_dimension();
    switch (op) {
    case 0: { PCon k; if (!b.gen_con(k, d, t.chance(5), &txt)) break; c.log << "  add_constraint " << txt << "\n"; e.both("ppl_PIP_Problem_add_constraint", "pip_add", [&] { return ppl_PIP_Problem_add_constraint(h, k.h.k()); }, [&] { x.add_constraint(k.x); return 0; }); k.h.free_(e); break; }
    case 1: { PCs cs; b.gen_cs(cs, d, 3, t.chance(5), &txt); c.log << "  add_constraints " << txt << "\n"; e.both("ppl_PIP_Problem_add_constraints", "pip_add", [&] { return ppl_PIP_Problem_add_constraints(h, cs.h.k()); }, [&] { x.add_constraints(cs.x); return 0; }); cs.h.free_(e); break; }
    case 2: { c.log << "  solve / solution tree\n"; int r = e.both("ppl_PIP_Problem_solve", "pip_solve", [&] { return ppl_PIP_Problem_solve(h.k()); }, [&] { return (int) x.solve(); }); c.log << "      -> " << r << "\n";
      c.check("same.out.pip", PPL_PIP_PROBLEM_STATUS_UNFEASIBLE == UNFEASIBLE_PIP_PROBLEM && PPL_PIP_PROBLEM_STATUS_OPTIMIZED == OPTIMIZED_PIP_PROBLEM, "status constants differ");
      if (r >= 0) { c.nt(); ppl_const_PIP_Tree_Node_t tn = 0; const PIP_Tree_Node* xt = 0; bool opt = t.chance(50);
        int r2 = opt ? e.both("ppl_PIP_Problem_optimizing_solution", "pip_solution", [&] { return ppl_PIP_Problem_optimizing_solution(h.k(), &tn); }, [&] { xt = x.optimizing_solution(); return 0; })
                     : e.both("ppl_PIP_Problem_solution", "pip_solution", [&] { return ppl_PIP_Problem_solution(h.k(), &tn); }, [&] { xt = x.solution(); return 0; });
        if (r2 == 0) { PipCmp pc{e, b, c}; pc.prob = &x; pc.node(tn, xt, 0); } }
      break; }
    case 3: { c.log << "  is_satisfiable\n"; e.both("ppl_PIP_Problem_is_satisfiable", "pip_solve", [&] { return ppl_PIP_Problem_is_satisfiable(h.k()); }, [&] { return x.is_satisfiable() ? 1 : 0; }); break; }
    case 4: { c.log << "  readback\n"; ppl_dimension_type m = 999, sd = 999, np = 999; e.ccall("ppl_PIP_Problem_number_of_constraints", [&] { return ppl_PIP_Problem_number_of_constraints(h.k(), &m); }); e.ccall("ppl_PIP_Problem_space_dimension", [&] { return ppl_PIP_Problem_space_dimension(h.k(), &sd); });
      e.ccall("ppl_PIP_Problem_number_of_parameter_space_dimensions", [&] { return ppl_PIP_Problem_number_of_parameter_space_dimensions(h.k(), &np); }); size_t xm = x.constraints_end() - x.constraints_begin();
      c.check("same.out.pip", m == xm && sd == x.space_dimension() && np == x.parameter_space_dimensions().size(), "counts differ");
      std::vector<ppl_dimension_type> got(np + 1, 777); e.ccall("ppl_PIP_Problem_parameter_space_dimensions", [&] { return ppl_PIP_Problem_parameter_space_dimensions(h.k(), got.data()); }); size_t i = 0; bool ok = got[np] == 777; for (Variables_Set::const_iterator v = x.parameter_space_dimensions().begin(); v != x.parameter_space_dimensions().end(); ++v, ++i) ok = ok && got[i] == *v; c.check("same.out.pip", ok, "parameter_space_dimensions differ");
      for (size_t k = 0; k < m && k < xm; ++k) { ppl_const_Constraint_t kc = 0; int r = e.ccall("ppl_PIP_Problem_constraint_at_index", [&] { return ppl_PIP_Problem_constraint_at_index(h.k(), k, &kc); }); c.check("same.out.pip", r == 0 && kc, "constraint_at_index failed"); b.same_con(kc, *(x.constraints_begin() + k), "constraint_at_index"); }
      e.both("ppl_PIP_Problem_OK", "pip_query", [&] { return ppl_PIP_Problem_OK(h.k()); }, [&] { return x.OK() ? 1 : 0; });
      size_t tot = 0, ext = 0; e.ccall("ppl_PIP_Problem_total_memory_in_bytes", [&] { return ppl_PIP_Problem_total_memory_in_bytes(h.k(), &tot); }); e.ccall("ppl_PIP_Problem_external_memory_in_bytes", [&] { return ppl_PIP_Problem_external_memory_in_bytes(h.k(), &ext); }); c.check("same.out.pip", tot == ext + sizeof(PIP_Problem), "total/external memory inconsistent");
      b.same_print("PIP_Problem", [&](char** s) { return ppl_io_asprint_PIP_Problem(s, h.k()); }, x); break; }
    case 5: { size_t mv = (size_t) t.range(0, 1), mp = (size_t) t.range(0, 1); if (d + mv + mp > 5) mv = mp = 0; c.log << "  add_space_dimensions_and_embed " << mv << " " << mp << "\n"; e.both("ppl_PIP_Problem_add_space_dimensions_and_embed", "pip_set", [&] { return ppl_PIP_Problem_add_space_dimensions_and_embed(h, mv, mp); }, [&] { x.add_space_dimensions_and_embed(mv, mp); return 0; }); break; }
    case 6: { c.log << "  copy / clear / assign\n"; HPIP_Problem cp; PIP_Problem xc(x); int rc = e.ccall("ppl_new_PIP_Problem_from_PIP_Problem", [&] { return ppl_new_PIP_Problem_from_PIP_Problem(cp.out(), h.k()); }); cp.got(rc); c.check("same.ret.pip_new", rc == 0, "copy failed");
      if (t.chance(50)) { e.both("ppl_PIP_Problem_clear", "pip_set", [&] { return ppl_PIP_Problem_clear(h); }, [&] { x.clear(); return 0; }); dump_same("clear"); }
      e.both("ppl_assign_PIP_Problem_from_PIP_Problem", "pip_set", [&] { return ppl_assign_PIP_Problem_from_PIP_Problem(h, cp.k()); }, [&] { x = xc; return 0; }); cp.free_(e); break; }
    default: { int w = (int) t.range(0, 2);
      if (w == 0) { int v = t.pick(std::vector<int>{ PPL_PIP_PROBLEM_CONTROL_PARAMETER_CUTTING_STRATEGY_FIRST, PPL_PIP_PROBLEM_CONTROL_PARAMETER_CUTTING_STRATEGY_DEEPEST, PPL_PIP_PROBLEM_CONTROL_PARAMETER_CUTTING_STRATEGY_ALL, PPL_PIP_PROBLEM_CONTROL_PARAMETER_PIVOT_ROW_STRATEGY_FIRST, PPL_PIP_PROBLEM_CONTROL_PARAMETER_PIVOT_ROW_STRATEGY_MAX_COLUMN }); c.log << "  set_control_parameter " << v << "\n";
        e.both("ppl_PIP_Problem_set_control_parameter", "pip_set", [&] { return ppl_PIP_Problem_set_control_parameter(h, v); }, [&] { x.set_control_parameter((PIP_Problem::Control_Parameter_Value) v); return 0; });
        e.both("ppl_PIP_Problem_get_control_parameter", "pip_query", [&] { return ppl_PIP_Problem_get_control_parameter(h.k(), PPL_PIP_PROBLEM_CONTROL_PARAMETER_NAME_CUTTING_STRATEGY); }, [&] { return (int) x.get_control_parameter(PIP_Problem::CUTTING_STRATEGY); });
        e.both("ppl_PIP_Problem_get_control_parameter", "pip_query", [&] { return ppl_PIP_Problem_get_control_parameter(h.k(), PPL_PIP_PROBLEM_CONTROL_PARAMETER_NAME_PIVOT_ROW_STRATEGY); }, [&] { return (int) x.get_control_parameter(PIP_Problem::PIVOT_ROW_STRATEGY); }); }
      else { size_t bp = (size_t) t.range(0, (long) d); c.log << "  set_big_parameter_dimension " << bp << "\n"; e.both("ppl_PIP_Problem_set_big_parameter_dimension", "pip_set", [&] { return ppl_PIP_Problem_set_big_parameter_dimension(h, bp); }, [&] { x.set_big_parameter_dimension(bp); return 0; });
        ppl_dimension_type g = 999; e.ccall("ppl_PIP_Problem_get_big_parameter_dimension", [&] { return ppl_PIP_Problem_get_big_parameter_dimension(h.k(), &g); }); c.check("same.out.pip", g == x.get_big_parameter_dimension(), "big parameter dimension differs"); }
      break; }
    }
    dump_same("step");
  }
  if (e.err_paths) c.nt();
  h.free_(e);
}

// ------------------------------------------------------------------ the non-domain entry points
static int g_alt_count = 0, g_alt_code = 0;
extern "C" void c20_alt_handler(enum ppl_enum_error_code code, const char*) { ++g_alt_count; g_alt_code = (int) code; }
extern "C" const char* c20_var_name(ppl_dimension_type v) { static char buf[32]; std::snprintf(buf, sizeof buf, "v%lu", (unsigned long) v); return buf; }

static void misc_program(Env& e, Basics& b) {
  vf::Ctx& c = e.c; vf::Tape& t = e.t; int which = (int) t.range(0, 9);
  switch (which) {
  case 0: { c.log << "version functions\n";
    e.both("ppl_version_major", "version", [&] { return ppl_version_major(); }, [&] { return (int) version_major(); }); e.both("ppl_version_minor", "version", [&] { return ppl_version_minor(); }, [&] { return (int) version_minor(); });
    e.both("ppl_version_revision", "version", [&] { return ppl_version_revision(); }, [&] { return (int) version_revision(); }); e.both("ppl_version_beta", "version", [&] { return ppl_version_beta(); }, [&] { return (int) version_beta(); });
    const char* p = 0; int r = e.ccall("ppl_version", [&] { return ppl_version(&p); }); c.check("same.version", r == 0 && p && std::strcmp(p, Parma_Polyhedra_Library::version()) == 0 && std::strcmp(p, PPL_VERSION) == 0, [&] { return std::string("ppl_version gives '") + (p ? p : "(null)") + "', C++ version() '" + Parma_Polyhedra_Library::version() + "', header PPL_VERSION '" + PPL_VERSION + "'"; });
    c.check("same.version", PPL_VERSION_MAJOR == (int) version_major() && PPL_VERSION_MINOR == (int) version_minor() && PPL_VERSION_REVISION == (int) version_revision() && PPL_VERSION_BETA == (int) version_beta(), "header version macros differ from the library");
    const char* q = 0; r = e.ccall("ppl_banner", [&] { return ppl_banner(&q); }); c.check("same.version", r == 0 && q && std::strcmp(q, banner()) == 0, "ppl_banner differs from banner()"); break; }
  case 1: { c.log << "dimension / coefficient limits\n"; ppl_dimension_type m = 0; int r = e.ccall("ppl_max_space_dimension", [&] { return ppl_max_space_dimension(&m); }); c.check("same.max_space_dimension", r == 0 && m == max_space_dimension(), [&] { return "ppl_max_space_dimension " + std::to_string(m) + " vs " + std::to_string(max_space_dimension()); });
    ppl_dimension_type nd = 0; e.ccall("ppl_not_a_dimension", [&] { return ppl_not_a_dimension(&nd); }); c.check("same.not_a_dimension", nd == not_a_dimension(), "not_a_dimension differs");
    e.both("ppl_Coefficient_is_bounded", "coef_limits", [&] { return ppl_Coefficient_is_bounded(); }, [&] { return std::numeric_limits<Coefficient>::is_bounded ? 1 : 0; });
    mpz_class z; e.both("ppl_Coefficient_min", "coef_limits", [&] { return ppl_Coefficient_min(z.get_mpz_t()); }, [&] { return std::numeric_limits<Coefficient>::is_bounded ? 1 : 0; }); e.both("ppl_Coefficient_max", "coef_limits", [&] { return ppl_Coefficient_max(z.get_mpz_t()); }, [&] { return std::numeric_limits<Coefficient>::is_bounded ? 1 : 0; });
    HCoefficient k; mpz_class v = e.gen_z(); b.mk_coef(k, v); e.both("ppl_Coefficient_OK", "coef_limits", [&] { return ppl_Coefficient_OK(k.k()); }, [&] { return 1; }); b.same_print("Coefficient", [&](char** s) { return ppl_io_asprint_Coefficient(s, k.k()); }, Coefficient(v));
    { using namespace IO_Operators; int rc; std::string got = e.via_file("ppl_io_fprint_Coefficient", [&](FILE* f) { return ppl_io_fprint_Coefficient(f, k.k()); }, &rc); c.check("same.print", rc == 0 && got == zs(v), "ppl_io_fprint_Coefficient differs"); } k.free_(e);
    // length error: a dimension beyond the maximum
    { HLinear_Expression le; int rc = e.both("ppl_new_Linear_Expression_with_dimension", "le_too_big", [&] { return ppl_new_Linear_Expression_with_dimension(le.out(), (size_t) -2); }, [&] { Linear_Expression x(0 * Variable((size_t) -3)); return 0; }); le.got(rc); le.free_(e); }
    break; }
  case 2: { c.log << "timeouts: argument validation, set/reset\n"; e.base_leak = true;   // Watchdog's constructor leaks its handler when it throws (base library, Watchdog_inlines.hh)
    e.both("ppl_set_timeout", "set_timeout", [&] { return ppl_set_timeout(0); }, [&] () -> int { throw std::invalid_argument("zero"); });
    int r = e.ccall("ppl_set_timeout", [&] { return ppl_set_timeout(360000); }); c.check("same.ret.set_timeout", r == 0, "ppl_set_timeout(360000) failed"); r = e.ccall("ppl_set_timeout", [&] { return ppl_set_timeout(350000); }); c.check("same.ret.set_timeout", r == 0, "second ppl_set_timeout failed");
    r = e.ccall("ppl_reset_timeout", [&] { return ppl_reset_timeout(); }); c.check("same.ret.set_timeout", r == 0, "ppl_reset_timeout failed"); r = e.ccall("ppl_reset_timeout", [&] { return ppl_reset_timeout(); }); c.check("same.ret.set_timeout", r == 0, "second ppl_reset_timeout failed");
    if (!vf::kf("KF-C20-6")) e.both("ppl_set_deterministic_timeout", "set_det_timeout_zero", [&] { return ppl_set_deterministic_timeout(0, 3); }, [&] () -> int { throw std::invalid_argument("zero"); }); else c.excluded("KF-C20-6");
    e.both("ppl_set_deterministic_timeout", "set_det_timeout", [&] { return ppl_set_deterministic_timeout(~0UL, 40); }, [&] () -> int { throw std::invalid_argument("too big"); });
    r = e.ccall("ppl_set_deterministic_timeout", [&] { return ppl_set_deterministic_timeout(1000000, 10); }); c.check("same.ret.set_det_timeout", r == 0, "ppl_set_deterministic_timeout failed");
    r = e.ccall("ppl_reset_deterministic_timeout", [&] { return ppl_reset_deterministic_timeout(); }); c.check("same.ret.set_det_timeout", r == 0, "ppl_reset_deterministic_timeout failed"); break; }
  case 3: { c.log << "variable output functions\n"; size_t v = (size_t) t.range(0, 80); char* s = 0; int r = e.ccall("ppl_io_asprint_variable", [&] { return ppl_io_asprint_variable(&s, v); }); std::ostringstream os; { using namespace IO_Operators; os << Variable(v); }
    c.check("same.print", r == 0 && s && os.str() == s, [&] { return std::string("ppl_io_asprint_variable gives '") + (s ? s : "(null)") + "', operator<< '" + os.str() + "'"; }); std::free(s);
    { int rc; std::string got = e.via_file("ppl_io_fprint_variable", [&](FILE* f) { return ppl_io_fprint_variable(f, v); }, &rc); c.check("same.print", rc == 0 && got == os.str(), "ppl_io_fprint_variable differs"); }
    ppl_io_variable_output_function_type* old = 0; e.ccall("ppl_io_get_variable_output_function", [&] { return ppl_io_get_variable_output_function(&old); }); c.check("same.print", old != 0, "no variable output function");
    e.ccall("ppl_io_set_variable_output_function", [&] { return ppl_io_set_variable_output_function(c20_var_name); }); ppl_io_variable_output_function_type* cur = 0; e.ccall("ppl_io_get_variable_output_function", [&] { return ppl_io_get_variable_output_function(&cur); });
    bool ok_set = cur == c20_var_name; std::string printed; { LEv le; le.a.assign(2, mpz_class(0)); le.a[1] = 1; le.b = 0; PLe l; b.mk_le(l, le); char* s2 = 0; e.ccall("ppl_io_asprint_Linear_Expression", [&] { return ppl_io_asprint_Linear_Expression(&s2, l.h.k()); }); printed = s2 ? s2 : ""; std::free(s2); l.h.free_(e); }
    e.ccall("ppl_io_set_variable_output_function", [&] { return ppl_io_set_variable_output_function(old); });
    c.check("same.print", ok_set && printed == "v1", [&] { return "custom variable output function not used: printed '" + printed + "'"; }); break; }
  case 4: { c.log << "ppl_io_wrap_string\n"; std::string src; int words = (int) t.range(0, 12); for (int i = 0; i < words; ++i) { src += std::string((size_t) t.range(1, 9), (char) ('a' + i)); src += t.chance(15) ? "\n" : " "; }
    unsigned ind = (unsigned) t.range(0, 4), fl = (unsigned) t.range(5, 30), ll = (unsigned) t.range(5, 30); char* r = 0; bool oom = t.chance(25); long k = t.range(1, 6);
    if (oom) { if (vf::kf("KF-C20-2")) { c.excluded("KF-C20-2"); break; } e.arm_next = k; }
    e.ccall("ppl_io_wrap_string", [&] { r = ppl_io_wrap_string(src.c_str(), ind, fl, ll); return r != 0 ? 0 : (int) PPL_ERROR_OUT_OF_MEMORY; });   // a null result is the error report of a char*-valued function
    if (!oom) { std::string x = IO_Operators::wrap_string(src, ind, fl, ll); c.check("same.print", r && x == r, "ppl_io_wrap_string differs from wrap_string"); } std::free(r); if (oom) { c.nt(); } break; }
  case 5: { c.log << "error handler replacement\n"; e.base_leak = true; g_alt_count = 0; int r = e.ccall("ppl_set_error_handler", [&] { return ppl_set_error_handler(c20_alt_handler); }); c.check("same.ret.set_error_handler", r == 0, "ppl_set_error_handler failed");
    int rc = 0; try { rc = ppl_set_timeout(0); } catch (...) { rc = 1000; } ppl_set_error_handler(c20_error_handler); c.tag("ppl_set_timeout");
    c.check("err.handler", rc == PPL_ERROR_INVALID_ARGUMENT && g_alt_count == 1 && g_alt_code == rc && g_err.count == 0, [&] { return "replaced handler: rc " + std::to_string(rc) + ", new handler calls " + std::to_string(g_alt_count) + ", old handler calls " + std::to_string(g_err.count); }); c.nt(); break; }
  case 6: { c.log << "irrational precision, rounding mode\n"; unsigned p0 = 0; e.ccall("ppl_irrational_precision", [&] { return ppl_irrational_precision(&p0); }); c.check("same.irrational_precision", p0 == irrational_precision(), "irrational precision differs");
    unsigned p1 = (unsigned) t.range(1, 200); e.both("ppl_set_irrational_precision", "irrational_precision", [&] { return ppl_set_irrational_precision(p1); }, [&] { return 0; }); c.check("same.irrational_precision", irrational_precision() == p1, "set_irrational_precision had no effect"); ppl_set_irrational_precision(p0);
    e.both("ppl_set_irrational_precision", "irrational_precision", [&] { return ppl_set_irrational_precision(~0u); }, [&] () -> int { throw std::invalid_argument("too big"); });
    int r = e.ccall("ppl_restore_pre_PPL_rounding", [&] { return ppl_restore_pre_PPL_rounding(); }); int r2 = e.ccall("ppl_set_rounding_for_PPL", [&] { return ppl_set_rounding_for_PPL(); }); c.check("same.ret.rounding", r == 0 && r2 == 0, "rounding functions failed"); break; }
  case 7: { c.log << "ppl_initialize on an initialized library (documented: PPL_ERROR_INVALID_ARGUMENT)\n"; if (vf::kf("KF-C20-3")) { c.excluded("KF-C20-3"); break; }
    ppl_io_variable_output_function_type* old = 0; ppl_io_get_variable_output_function(&old);
    int r = e.ccall("ppl_initialize", [&] { return ppl_initialize(); }); ppl_io_set_variable_output_function(old);
    c.check("init.twice", r == PPL_ERROR_INVALID_ARGUMENT, [&] { return "ppl_initialize() on an already initialized library returned " + std::to_string(r) + ", documented PPL_ERROR_INVALID_ARGUMENT"; }); break; }
  case 8: b.le_arith((size_t) t.range(0, 3)); break;
  default: b.system_program((size_t) t.range(0, 3)); break;
  }
}

// ------------------------------------------------------------------ one case
static bool g_skip_leak = false;
static void run_case(vf::Ctx& c) {
  static bool init = false;
  if (!init) { init = true; int r = ppl_initialize(); if (r != 0) throw vf::Fail("init.first", "ppl_initialize() returned " + std::to_string(r)); ppl_set_error_handler(c20_error_handler); }
  // no timeout of an earlier (failed) case may leak into this one
  ppl_reset_timeout(); ppl_reset_deterministic_timeout();
  Env e(c); Basics b(e); long h0 = g_handles;
  int what = c.t.weighted({12, 12, 12, 9, 9, 9, 9, 9, 6, 5, 8});
  switch (what) {
  case 0: c20_run_CPoly(e, b); break;
  case 1: c20_run_NNCPoly(e, b); break;
  case 2: c20_run_Grid(e, b); break;
  case 3: c20_run_RBox(e, b); break;
  case 4: c20_run_BDS(e, b); break;
  case 5: c20_run_Oct(e, b); break;
  case 6: c20_run_PSet(e, b); break;
  case 7: c20_run_Prod(e, b); break;
  case 8: mip_program(e, b); break;
  case 9: pip_program(e, b); break;
  default: { int k = (int) c.t.range(1, 4); for (int i = 0; i < k; ++i) misc_program(e, b); if (e.err_paths) c.nt(); break; }
  }
  // Oracle (3): every handle created through ppl_new_* was released exactly once.
  // Leaks are judged on cases without error returns only: on exception paths the base library itself
  // leaks (Watchdog's constructor, Box(Polyhedron) on an internal length_error), which is not the C layer's doing.
  if (e.base_leak) g_skip_leak = true;
  c.check("own.balance", g_handles == h0, [&] { return std::to_string(g_handles - h0) + " handle(s) created by the case were not deleted"; });
}
void vf_case(vf::Ctx& c) {
  long before = mem::live_c; g_skip_leak = false; uint64_t seq0 = mem::seq;
  run_case(c);
  long delta = mem::live_c - before;
  // the recording of internal assertions (common.hh) allocates inside the C call: such cases are not judged
  if (!vf::fired_asserts().empty()) g_skip_leak = true;
  if (delta > 0 && g_skip_leak) c.tag("live allocations grew in a case with fired assertions or a throwing Watchdog constructor (not judged)");
  if (delta > 0 && !g_skip_leak) {
    // PPL caches temporaries (and the caches depend on the history): judge a leak only if the
    // same case leaks again in each of five immediate re-runs
    long d[5] = { 0, 0, 0, 0, 0 }; bool ok = true;
    std::string who = mem::survivors(seq0);
    for (int k = 0; k < 5 && ok; ++k) { vf::Ctx c2(c.t.v); long b2 = mem::live_c; try { run_case(c2); } catch (...) { ok = false; } d[k] = mem::live_c - b2; }
    if (ok) c.check("own.leak", d[0] <= 0 || d[1] <= 0 || d[2] <= 0 || d[3] <= 0 || d[4] <= 0, [&] { return "allocations made inside C calls and never released: " + std::to_string(delta) + " block(s) in the first run, " + std::to_string(d[0]) + " and " + std::to_string(d[1]) + " (and 3 more times) again in five immediate re-runs of the same case; surviving blocks of the first run were allocated in:" + who; });
  }
}
VF_MAIN
#endif // C20_MAIN_PART
#else  // ====================================================================== C20_DOMAIN_BODY
// One interfaced domain.  Configuration macros: DOM_NAME (program name), DOM_CT (token used by
// the constructors, e.g. C_Polyhedron), DOM_OT (token used by the operations and the handle
// type, e.g. Polyhedron), DOM_X (C++ twin type), feature flags DOM_*.
#define OPF(op) C20_CAT(ppl_, DOM_OT, _, op)
#define OPF2(op) C20_CAT5(ppl_, DOM_OT, _, op, DOM_OT)
#define OPN(op) "ppl_" C20_STR(DOM_OT) "_" #op
#define OPN2(op) "ppl_" C20_STR(DOM_OT) "_" #op C20_STR(DOM_OT)
#define NEWF(sfx) C20_CAT(ppl_new_, DOM_CT, _, sfx)
#define NEWN(sfx) "ppl_new_" C20_STR(DOM_CT) "_" #sfx
#define NEWCOPYF C20_CAT(ppl_new_, DOM_CT, _from_, DOM_CT)
#define NEWCOPYN "ppl_new_" C20_STR(DOM_CT) "_from_" C20_STR(DOM_CT)
#define NEWCOPYCF C20_CAT5(ppl_new_, DOM_CT, _from_, DOM_CT, _with_complexity)
#define NEWCOPYCN "ppl_new_" C20_STR(DOM_CT) "_from_" C20_STR(DOM_CT) "_with_complexity"
#define ASSIGNF C20_CAT(ppl_assign_, DOM_CT, _from_, DOM_CT)
#define ASSIGNN "ppl_assign_" C20_STR(DOM_CT) "_from_" C20_STR(DOM_CT)

struct C20_CAT(Prog_, DOM_NAME, , ) {
  typedef DOM_X X;
  typedef C20_CAT(ppl_, DOM_OT, _t, ) HT;
  typedef C20_CAT(ppl_const_, DOM_OT, _t, ) CHT;
  typedef C20_CAT(H, DOM_OT, , ) HH;
  struct Obj { HH h; X x; explicit Obj(const X& x_) : x(x_) {} };
  Env& e; Basics& b; vf::Ctx& c; vf::Tape& t;
  std::vector<std::unique_ptr<Obj> > pool;
  static const bool nnc = DOM_NNC;
  static const char* dn() { return C20_STR(DOM_CT); }

  C20_CAT(Prog_, DOM_NAME, , )(Env& e_, Basics& b_) : e(e_), b(b_), c(e_.c), t(e_.t) {}

  std::string cdump(CHT h) { int rc; std::string s = e.via_file(OPN(ascii_dump), [&](FILE* f) { return OPF(ascii_dump)(h, f); }, &rc); c.check("same.ascii_dump", rc == 0, OPN(ascii_dump) " failed"); return s; }
  static std::string xdump(const X& x) { std::ostringstream os; x.ascii_dump(os); return os.str(); }
  // Oracle (1) after every step, for EVERY pool object (hence also for const arguments): the
  // handle's content, dumped through the C interface, equals the C++ twin's.
  void sync(const char* opid) {
    for (size_t i = 0; i < pool.size(); ++i) { std::string a = cdump(pool[i]->h.k()), x = xdump(pool[i]->x);
      c.check(std::string("same.state.") + opid, a == x, [&] { return std::string(dn()) + " obj" + std::to_string(i) + " after " + opid + ": the handle's content differs from the C++ twin's\n--- C handle:\n" + a + "--- C++ twin:\n" + x; }); }
  }
  // the twin takes exactly the state of a freshly constructed object (operator= would keep stale parts)
  template <class... A> static void fresh(X& dst, A&&... a) { X tmp(std::forward<A>(a)...); dst.m_swap(tmp); }
#if DOM_PSET
  // powerset disjuncts are shared copy-on-write: a query on a copy would minimise the twin's own disjuncts
  bool interesting(const X& x) { std::stringstream ss; x.ascii_dump(ss); X cp(x.space_dimension(), UNIVERSE); try { if (!cp.ascii_load(ss)) return false; return !cp.is_empty() && !cp.is_universe(); } catch (std::exception&) { return false; } }
#else
  bool interesting(const X& x) { X cp(x); return !cp.is_empty() && !cp.is_universe(); }
#endif
  size_t gv(size_t n) { if (n == 0) return 0; return t.chance(5) ? n : (size_t) t.range(0, (long) n - 1); }
  std::vector<ppl_dimension_type> gvars(size_t n, std::string* txt) { std::vector<ppl_dimension_type> v; for (size_t i = 0; i < n; ++i) if (t.chance(40)) v.push_back(i); if (t.chance(4)) v.push_back(n); if (txt) { *txt = "{"; for (size_t k : v) *txt += " x" + std::to_string(k); *txt += " }"; } return v; }
  static Variables_Set vset(const std::vector<ppl_dimension_type>& v) { Variables_Set s; for (size_t k : v) s.insert(k); return s; }

  // ------------------------------------------------------------------ constructors
  void make(Obj& o, size_t n) {
    int kind = t.weighted({40, 20, 10, 8
#if DOM_GENSYS
      , 12
#else
      , 0
#endif
#if DOM_RECYCLE
      , 6
#else
      , 0
#endif
#if DOM_GRID
      , 12
#else
      , 0
#endif
      , 3 });
    std::string txt; int rc = 0;
    switch (kind) {
    case 0: { PCs cs; b.gen_cs(cs, n, 4, nnc, &txt); c.log << "  new " << dn() << " from constraints " << txt << "\n";
      rc = e.both(NEWN(from_Constraint_System), "new_from_cs", [&] { return NEWF(from_Constraint_System)(o.h.out(), cs.h.k()); }, [&] { fresh(o.x, cs.x); return 0; }); o.h.got(rc);
      b.same_Constraint_System(cs.h.k(), cs.x, "const argument"); cs.h.free_(e); break; }
    case 1: { int emp = t.chance(30); size_t d = n; if (DOM_BIGDIM && t.chance(3)) d = (size_t) -2;   // beyond every maximum: length error (only where the C++ constructor checks it)
      c.log << "  new " << dn() << " from space dimension " << d << (emp ? " empty" : " universe") << "\n";
      rc = e.both(NEWN(from_space_dimension), "new_from_dim", [&] { return NEWF(from_space_dimension)(o.h.out(), d, emp); }, [&] { fresh(o.x, d, emp ? EMPTY : UNIVERSE); return 0; }); o.h.got(rc); break; }
    case 2: { PCgs cs; b.gen_cgs(cs, n, 3, &txt); c.log << "  new " << dn() << " from congruences " << txt << "\n";
      rc = e.both(NEWN(from_Congruence_System), "new_from_cgs", [&] { return NEWF(from_Congruence_System)(o.h.out(), cs.h.k()); }, [&] { fresh(o.x, cs.x); return 0; }); o.h.got(rc);
      b.same_Congruence_System(cs.h.k(), cs.x, "const argument"); cs.h.free_(e); break; }
    case 3: { // from a C polyhedron (cross-domain constructor)
      PCs cs; b.gen_cs(cs, n, 3, false, &txt); HPolyhedron ph; C_Polyhedron xp(n);
      int r0 = e.both("ppl_new_C_Polyhedron_from_Constraint_System", "new_from_cs", [&] { return ppl_new_C_Polyhedron_from_Constraint_System(ph.out(), cs.h.k()); }, [&] { xp = C_Polyhedron(cs.x); return 0; }); ph.got(r0); cs.h.free_(e);
      if (r0 < 0) { rc = r0; break; }
      int cx = (int) t.range(0, 3); c.log << "  new " << dn() << " from C_Polyhedron " << txt << (cx < 3 ? " with complexity " + std::to_string(cx) : std::string()) << "\n";
      static const Complexity_Class cc[3] = { POLYNOMIAL_COMPLEXITY, SIMPLEX_COMPLEXITY, ANY_COMPLEXITY };
      if (cx == 3) rc = e.both(NEWN(from_C_Polyhedron), "new_from_poly", [&] { return NEWF(from_C_Polyhedron)(o.h.out(), ph.k()); }, [&] { fresh(o.x, xp); return 0; });
      else rc = e.both(NEWN(from_C_Polyhedron_with_complexity), "new_from_poly", [&] { return NEWF(from_C_Polyhedron_with_complexity)(o.h.out(), ph.k(), cx); }, [&] { fresh(o.x, xp, cc[cx]); return 0; });
      o.h.got(rc); b.same_dump("ppl_Polyhedron_ascii_dump", [&](FILE* f) { return ppl_Polyhedron_ascii_dump(ph.k(), f); }, xp); ph.free_(e); break; }
#if DOM_GENSYS
    case 4: { PGs gs; b.gen_gs(gs, n, 4, nnc, !t.chance(8), &txt); c.log << "  new " << dn() << " from generators " << txt << "\n";
      rc = e.both(NEWN(from_Generator_System), "new_from_gs", [&] { return NEWF(from_Generator_System)(o.h.out(), gs.h.k()); }, [&] { fresh(o.x, gs.x); return 0; }); o.h.got(rc);
      b.same_Generator_System(gs.h.k(), gs.x, "const argument"); gs.h.free_(e); break; }
#endif
#if DOM_RECYCLE
    case 5: { int w = (int) t.range(0, 1);
      if (w == 0) { PCs cs; b.gen_cs(cs, n, 4, nnc, &txt); c.log << "  new " << dn() << " recycling constraints " << txt << "\n";
        rc = e.both(NEWN(recycle_Constraint_System), "new_recycle", [&] { return NEWF(recycle_Constraint_System)(o.h.out(), cs.h); }, [&] { fresh(o.x, cs.x DOM_RECYCLE_ARG); return 0; }); o.h.got(rc); cs.h.free_(e); }
      else { PCgs cs; b.gen_cgs(cs, n, 3, &txt); c.log << "  new " << dn() << " recycling congruences " << txt << "\n";
        rc = e.both(NEWN(recycle_Congruence_System), "new_recycle", [&] { return NEWF(recycle_Congruence_System)(o.h.out(), cs.h); }, [&] { fresh(o.x, cs.x DOM_RECYCLE_ARG); return 0; }); o.h.got(rc); cs.h.free_(e); }
      break; }
#endif
#if DOM_GRID
    case 6: { PGgs gs; b.gen_ggs(gs, n, 4, !t.chance(8), &txt); c.log << "  new " << dn() << " from grid generators " << txt << "\n";
      rc = e.both(NEWN(from_Grid_Generator_System), "new_from_ggs", [&] { return NEWF(from_Grid_Generator_System)(o.h.out(), gs.h.k()); }, [&] { fresh(o.x, gs.x); return 0; }); o.h.got(rc);
      b.same_Grid_Generator_System(gs.h.k(), gs.x, "const argument"); gs.h.free_(e); break; }
#endif
    default: break;
    }
    if (!o.h.p) {            // the constructor failed (error path) or was not chosen: fall back to a universe
      c.check("own.no_handle_on_error", rc <= 0, "constructor failed but stored a handle");
      rc = e.both(NEWN(from_space_dimension), "new_from_dim", [&] { return NEWF(from_space_dimension)(o.h.out(), n, 0); }, [&] { fresh(o.x, n, UNIVERSE); return 0; }); o.h.got(rc);
      c.check("same.ret.new_from_dim", o.h.p != 0, "cannot create a universe object");
    }
  }
  Obj* clone(const Obj& src, bool with_cx) {
    std::unique_ptr<Obj> o(new Obj(src.x)); int rc;
    if (!with_cx) rc = e.both(NEWCOPYN, "new_copy", [&] { return NEWCOPYF(o->h.out(), src.h.k()); }, [&] { fresh(o->x, src.x); return 0; });
    else { int cx = (int) t.range(0, 2); static const Complexity_Class cc[3] = { POLYNOMIAL_COMPLEXITY, SIMPLEX_COMPLEXITY, ANY_COMPLEXITY };
      rc = e.both(NEWCOPYCN, "new_copy", [&] { return NEWCOPYCF(o->h.out(), src.h.k(), cx); }, [&] { fresh(o->x, src.x, cc[cx]); return 0; }); }
    o->h.got(rc); c.check("same.ret.new_copy", o->h.p != 0, "copy construction failed");
    return o.release();
  }

  // ------------------------------------------------------------------ the program
  void run() {
    size_t n = (size_t) t.range(0, 3); if (n == 0 && t.chance(70)) n = 2;
    c.log << "domain " << dn() << ", dimension " << n << "\n";
    for (int i = 0; i < 2; ++i) { pool.emplace_back(new Obj(X(n, UNIVERSE))); make(*pool.back(), n); }
    sync("construction");
    int steps = (int) t.range(3, 14);
    for (int s = 0; s < steps && !t.exhausted(); ++s) step();
    for (size_t i = 0; i < pool.size(); ++i) pool[i]->h.free_(e);
    pool.clear();
  }
  void step() {
    size_t i = (size_t) t.range(0, (long) pool.size() - 1), j = (size_t) t.range(0, (long) pool.size() - 1);
    Obj& o = *pool[i]; Obj& q = *pool[j]; size_t n = o.x.space_dimension();
    bool was = interesting(o.x); int errs0 = e.err_paths;
    const char* opid = "none"; std::string txt;
    int op = t.weighted({10, 8, 7, 12, 7, 7, 5, 4, 8, 10, 7, 6, 7, 6, 6, 5, 4, 6, 3, 3, 4, 3});
    c.log << "  [obj" << i << "] ";
    switch (op) {
    case 0: { opid = "add_constraint"; PCon k; if (!b.gen_con(k, n, nnc, &txt)) { c.log << "(ill-formed constraint " << txt << ")\n"; break; } bool refine = t.chance(35);
      c.log << (refine ? "refine_with_constraint " : "add_constraint ") << txt << "\n";
      if (refine) e.both(OPN(refine_with_constraint), opid, [&] { return OPF(refine_with_constraint)(o.h, k.h.k()); }, [&] { o.x.refine_with_constraint(k.x); return 0; });
      else e.both(OPN(add_constraint), opid, [&] { return OPF(add_constraint)(o.h, k.h.k()); }, [&] { o.x.add_constraint(k.x); return 0; });
      b.same_con(k.h.k(), k.x, "const argument"); k.h.free_(e); break; }
    case 1: { opid = "add_constraints"; PCs cs; b.gen_cs(cs, n, 3, nnc, &txt); int how = (int) t.range(0, DOM_RECYCLE ? 2 : 1);
      c.log << (how == 0 ? "add_constraints " : how == 1 ? "refine_with_constraints " : "add_recycled_constraints ") << txt << "\n";
      if (how == 0) e.both(OPN(add_constraints), opid, [&] { return OPF(add_constraints)(o.h, cs.h.k()); }, [&] { o.x.add_constraints(cs.x); return 0; });
      else if (how == 1) e.both(OPN(refine_with_constraints), opid, [&] { return OPF(refine_with_constraints)(o.h, cs.h.k()); }, [&] { o.x.refine_with_constraints(cs.x); return 0; });
#if DOM_RECYCLE
      else e.both(OPN(add_recycled_constraints), opid, [&] { return OPF(add_recycled_constraints)(o.h, cs.h); }, [&] { o.x.add_recycled_constraints(cs.x); return 0; });
#endif
      if (how != 2) b.same_Constraint_System(cs.h.k(), cs.x, "const argument"); cs.h.free_(e); break; }
    case 2: { opid = "add_congruence"; int how = (int) t.range(0, DOM_RECYCLE ? 4 : 3);
      if (how < 2) { PCg k; if (!b.gen_cg(k, n, &txt)) { c.log << "(ill-formed congruence " << txt << ")\n"; break; } c.log << (how == 0 ? "add_congruence " : "refine_with_congruence ") << txt << "\n";
        if (how == 0) e.both(OPN(add_congruence), opid, [&] { return OPF(add_congruence)(o.h, k.h.k()); }, [&] { o.x.add_congruence(k.x); return 0; });
        else e.both(OPN(refine_with_congruence), opid, [&] { return OPF(refine_with_congruence)(o.h, k.h.k()); }, [&] { o.x.refine_with_congruence(k.x); return 0; });
        b.same_cg(k.h.k(), k.x, "const argument"); k.h.free_(e); }
      else { PCgs cs; b.gen_cgs(cs, n, 3, &txt); c.log << (how == 2 ? "add_congruences " : how == 3 ? "refine_with_congruences " : "add_recycled_congruences ") << txt << "\n";
        if (how == 2) e.both(OPN(add_congruences), opid, [&] { return OPF(add_congruences)(o.h, cs.h.k()); }, [&] { o.x.add_congruences(cs.x); return 0; });
        else if (how == 3) e.both(OPN(refine_with_congruences), opid, [&] { return OPF(refine_with_congruences)(o.h, cs.h.k()); }, [&] { o.x.refine_with_congruences(cs.x); return 0; });
#if DOM_RECYCLE
        else e.both(OPN(add_recycled_congruences), opid, [&] { return OPF(add_recycled_congruences)(o.h, cs.h); }, [&] { o.x.add_recycled_congruences(cs.x); return 0; });
#endif
        if (how != 4) b.same_Congruence_System(cs.h.k(), cs.x, "const argument"); cs.h.free_(e); }
      break; }
    case 3: { opid = "binary_assign"; int k = (int) t.range(0, 9);
      if (k == 4 && n + q.x.space_dimension() > 6) k = 0;
#define C20_BIN(name) { c.log << #name " obj" << j << "\n"; e.both(OPN(name), opid, [&] { return OPF(name)(o.h, q.h.k()); }, [&] { o.x.name(q.x); return 0; }); }
#define C20_BINB(name) { c.log << #name " obj" << j << "\n"; e.both(OPN(name), opid, [&] { return OPF(name)(o.h, q.h.k()); }, [&] { return o.x.name(q.x) ? 1 : 0; }); }
      switch (k) {
      case 0: C20_BIN(intersection_assign) break; case 1: C20_BIN(upper_bound_assign) break; case 2: C20_BIN(difference_assign) break;
      case 3: C20_BIN(time_elapse_assign) break; case 4: C20_BIN(concatenate_assign) break; case 5: C20_BINB(upper_bound_assign_if_exact) break;
#if DOM_SIMPLIFY
      case 6: if (std::string(C20_STR(DOM_CT)) == "Octagonal_Shape_mpz_class" && vf::kf("KF-C03-3")) { c.excluded("KF-C03-3"); break; }   // base-library PPL_UNREACHABLE, recorded under C03
              C20_BINB(simplify_using_context_assign) break;
#endif
#if DOM_POLY
      case 7: if (t.chance(50)) C20_BIN(poly_hull_assign) else C20_BIN(poly_difference_assign) break;
      case 8: C20_BIN(positive_time_elapse_assign) break;
      case 9: C20_BINB(poly_hull_assign_if_exact) break;
#endif
      default: C20_BIN(intersection_assign) break;
      }
      break; }
    case 4: { opid = "affine_image"; size_t v = gv(n); LEv le = b.gen_lev(n); mpz_class d = t.pick(std::vector<long>{1, 1, -1, 2, 3, 0}); bool pre = t.chance(40);
      PLe l; b.mk_le(l, le); HCoefficient k; b.mk_coef(k, d); c.log << (pre ? "affine_preimage x" : "affine_image x") << v << " := (" << le.str() << ")/" << zs(d) << "\n";
      if (pre) e.both(OPN(affine_preimage), opid, [&] { return OPF(affine_preimage)(o.h, v, l.h.k(), k.k()); }, [&] { o.x.affine_preimage(Variable(v), l.x, Coefficient(d)); return 0; });
      else e.both(OPN(affine_image), opid, [&] { return OPF(affine_image)(o.h, v, l.h.k(), k.k()); }, [&] { o.x.affine_image(Variable(v), l.x, Coefficient(d)); return 0; });
      l.h.free_(e); k.free_(e); break; }
    case 5: { opid = "generalized_affine_image"; size_t v = gv(n); LEv le = b.gen_lev(n), le2 = b.gen_lev(n); mpz_class d = t.pick(std::vector<long>{1, 1, -1, 2, 0}); int how = (int) t.range(0, 3);
      int rs = (int) t.range(nnc ? 0 : 1, nnc ? 4 : 3); if (t.chance(6)) rs = (int) t.range(0, 4);
      static const Relation_Symbol RS[5] = { LESS_THAN, LESS_OR_EQUAL, EQUAL, GREATER_OR_EQUAL, GREATER_THAN };
      PLe l, l2; b.mk_le(l, le); b.mk_le(l2, le2); HCoefficient k; b.mk_coef(k, d); enum ppl_enum_Constraint_Type crs = (enum ppl_enum_Constraint_Type) rs;
      if (how == 0) { c.log << "generalized_affine_image x" << v << " " << CTN(rs) << " (" << le.str() << ")/" << zs(d) << "\n"; e.both(OPN(generalized_affine_image), opid, [&] { return OPF(generalized_affine_image)(o.h, v, crs, l.h.k(), k.k()); }, [&] { o.x.generalized_affine_image(Variable(v), RS[rs], l.x, Coefficient(d)); return 0; }); }
      else if (how == 1) { c.log << "generalized_affine_preimage x" << v << " " << CTN(rs) << " (" << le.str() << ")/" << zs(d) << "\n"; e.both(OPN(generalized_affine_preimage), opid, [&] { return OPF(generalized_affine_preimage)(o.h, v, crs, l.h.k(), k.k()); }, [&] { o.x.generalized_affine_preimage(Variable(v), RS[rs], l.x, Coefficient(d)); return 0; }); }
      else if (how == 2) { c.log << "generalized_affine_image_lhs_rhs " << le2.str() << " " << CTN(rs) << " " << le.str() << "\n"; e.both(OPN(generalized_affine_image_lhs_rhs), opid, [&] { return OPF(generalized_affine_image_lhs_rhs)(o.h, l2.h.k(), crs, l.h.k()); }, [&] { o.x.generalized_affine_image(l2.x, RS[rs], l.x); return 0; }); }
      else { c.log << "generalized_affine_preimage_lhs_rhs " << le2.str() << " " << CTN(rs) << " " << le.str() << "\n"; e.both(OPN(generalized_affine_preimage_lhs_rhs), opid, [&] { return OPF(generalized_affine_preimage_lhs_rhs)(o.h, l2.h.k(), crs, l.h.k()); }, [&] { o.x.generalized_affine_preimage(l2.x, RS[rs], l.x); return 0; }); }
      b.same_le(l.h.k(), l.x, "const argument"); l.h.free_(e); l2.h.free_(e); k.free_(e); break; }
    case 6: { opid = "bounded_affine_image"; size_t v = gv(n); LEv lo = b.gen_lev(n), up = b.gen_lev(n); mpz_class d = t.pick(std::vector<long>{1, 1, -1, 2, 0}); bool pre = t.chance(40);
      if (DOM_BOX) pre = false;   // Box::bounded_affine_preimage divides by zero (SIGFPE) when the variable occurs in a bound: base library
      PLe l, u; b.mk_le(l, lo); b.mk_le(u, up); HCoefficient k; b.mk_coef(k, d); c.log << (pre ? "bounded_affine_preimage (" : "bounded_affine_image (") << lo.str() << ")/" << zs(d) << " <= x" << v << " <= (" << up.str() << ")/" << zs(d) << "\n";
      if (pre) e.both(OPN(bounded_affine_preimage), opid, [&] { return OPF(bounded_affine_preimage)(o.h, v, l.h.k(), u.h.k(), k.k()); }, [&] { o.x.bounded_affine_preimage(Variable(v), l.x, u.x, Coefficient(d)); return 0; });
      else e.both(OPN(bounded_affine_image), opid, [&] { return OPF(bounded_affine_image)(o.h, v, l.h.k(), u.h.k(), k.k()); }, [&] { o.x.bounded_affine_image(Variable(v), l.x, u.x, Coefficient(d)); return 0; });
      l.h.free_(e); u.h.free_(e); k.free_(e); break; }
    case 7: { opid = "unconstrain"; if (t.chance(50)) { size_t v = gv(n); c.log << "unconstrain_space_dimension x" << v << "\n"; e.both(OPN(unconstrain_space_dimension), opid, [&] { return OPF(unconstrain_space_dimension)(o.h, v); }, [&] { o.x.unconstrain(Variable(v)); return 0; }); }
      else { std::vector<ppl_dimension_type> vs = gvars(n, &txt); c.log << "unconstrain_space_dimensions " << txt << "\n"; e.both(OPN(unconstrain_space_dimensions), opid, [&] { return OPF(unconstrain_space_dimensions)(o.h, vs.data(), vs.size()); }, [&] { o.x.unconstrain(vset(vs)); return 0; }); }
      break; }
    case 8: dimension_change(o, n, opid); break;
    case 9: unary_query(o, n, opid); break;
    case 10: { opid = "binary_query"; int k = (int) t.range(0, 3); const char* nm[4] = { "contains", "strictly_contains", "is_disjoint_from", "equals" }; c.log << nm[k] << " obj" << j << " ?\n"; int r;
      if (k == 0) r = e.both(OPN2(contains_), opid, [&] { return OPF2(contains_)(o.h.k(), q.h.k()); }, [&] { return o.x.contains(q.x) ? 1 : 0; });
      else if (k == 1) r = e.both(OPN2(strictly_contains_), opid, [&] { return OPF2(strictly_contains_)(o.h.k(), q.h.k()); }, [&] { return o.x.strictly_contains(q.x) ? 1 : 0; });
      else if (k == 2) r = e.both(OPN2(is_disjoint_from_), opid, [&] { return OPF2(is_disjoint_from_)(o.h.k(), q.h.k()); }, [&] { return o.x.is_disjoint_from(q.x) ? 1 : 0; });
      else r = e.both(OPN2(equals_), opid, [&] { return OPF2(equals_)(o.h.k(), q.h.k()); }, [&] { return o.x == q.x ? 1 : 0; });
      c.log << "      -> " << r << "\n"; break; }
    case 11: { opid = "relation_with"; int k = (int) t.range(0, DOM_GRID ? 3 : 2);
      if (k == 0) { PCon g; if (b.gen_con(g, n, true, &txt)) { c.log << "relation_with_Constraint " << txt << "\n"; int r = e.both(OPN(relation_with_Constraint), opid, [&] { return OPF(relation_with_Constraint)(o.h.k(), g.h.k()); }, [&] { return (int) o.x.relation_with(g.x).get_flags(); }); c.log << "      -> " << r << "\n"; g.h.free_(e); } else c.log << "(ill-formed)\n"; }
      else if (k == 1) { PGen g; if (b.gen_gen(g, n, true, &txt)) { c.log << "relation_with_Generator " << txt << "\n"; int r = e.both(OPN(relation_with_Generator), opid, [&] { return OPF(relation_with_Generator)(o.h.k(), g.h.k()); }, [&] { return (int) o.x.relation_with(g.x).get_flags(); }); c.log << "      -> " << r << "\n"; g.h.free_(e); } else c.log << "(ill-formed)\n"; }
      else if (k == 2) { PCg g; if (b.gen_cg(g, n, &txt)) { c.log << "relation_with_Congruence " << txt << "\n"; int r = e.both(OPN(relation_with_Congruence), opid, [&] { return OPF(relation_with_Congruence)(o.h.k(), g.h.k()); }, [&] { return (int) o.x.relation_with(g.x).get_flags(); }); c.log << "      -> " << r << "\n"; g.h.free_(e); } else c.log << "(ill-formed)\n"; }
#if DOM_GRID
      else { PGg g; if (b.gen_gg(g, n, &txt)) { c.log << "relation_with_Grid_Generator " << txt << "\n"; int r = e.both(OPN(relation_with_Grid_Generator), opid, [&] { return OPF(relation_with_Grid_Generator)(o.h.k(), g.h.k()); }, [&] { return (int) o.x.relation_with(g.x).get_flags(); }); c.log << "      -> " << r << "\n"; g.h.free_(e); } else c.log << "(ill-formed)\n"; }
#endif
      break; }
    case 12: optimize(o, n, opid); break;
    case 13: getters(o, q, n, opid); break;
    case 14: { opid = "replace"; int how = (int) t.range(0, 2);
      if (how == 0) { c.log << "replaced by a new object\n"; std::unique_ptr<Obj> nw(new Obj(X(n, UNIVERSE))); make(*nw, n); o.h.free_(e); pool[i] = std::move(nw); }
      else if (how == 1 || !DOM_ASSIGN) { bool cx = t.chance(40); c.log << "replaced by a copy of obj" << j << (cx ? " (with complexity)" : "") << "\n"; std::unique_ptr<Obj> nw(clone(q, cx)); if (i != j) { o.h.free_(e); pool[i] = std::move(nw); } else nw->h.free_(e); }
#if DOM_ASSIGN
      else { c.log << "assign from obj" << j << "\n"; e.both(ASSIGNN, opid, [&] { return ASSIGNF(o.h, q.h.k()); }, [&] { o.x = q.x; return 0; }); }
#endif
      break; }
    case 15: widen(o, q, j, opid); break;
    case 16: { opid = "simplify"; int k = (int) t.range(0, 2); static const Complexity_Class cc[3] = { POLYNOMIAL_COMPLEXITY, SIMPLEX_COMPLEXITY, ANY_COMPLEXITY };
      if (k == 0) { c.log << "topological_closure_assign\n"; e.both(OPN(topological_closure_assign), opid, [&] { return OPF(topological_closure_assign)(o.h); }, [&] { o.x.topological_closure_assign(); return 0; }); }
      else if (k == 1) { int cx = (int) t.range(0, 2); c.log << "drop_some_non_integer_points complexity " << cx << "\n"; e.both(OPN(drop_some_non_integer_points), opid, [&] { return OPF(drop_some_non_integer_points)(o.h, cx); }, [&] { o.x.drop_some_non_integer_points(cc[cx]); return 0; }); }
      else { int cx = (int) t.range(0, 2); std::vector<ppl_dimension_type> vs = gvars(n, &txt); c.log << "drop_some_non_integer_points_2 " << txt << " complexity " << cx << "\n"; e.both(OPN(drop_some_non_integer_points_2), opid, [&] { return OPF(drop_some_non_integer_points_2)(o.h, vs.data(), vs.size(), cx); }, [&] { o.x.drop_some_non_integer_points(vset(vs), cc[cx]); return 0; }); }
      break; }
    case 17: extras(o, q, j, n, opid); break;
    case 18: inject_oom(o, n, opid); break;
    case 19: det_timeout(o, n, opid); break;
    case 20: { opid = "io"; c.log << "print / dump / load round trip\n";
      b.same_print(C20_STR(DOM_OT), [&](char** s) { return C20_CAT(ppl_io_asprint_, DOM_OT, , )(s, o.h.k()); }, o.x);
      { using namespace IO_Operators; int rc; std::string got = e.via_file("ppl_io_fprint_" C20_STR(DOM_OT), [&](FILE* f) { return C20_CAT(ppl_io_fprint_, DOM_OT, , )(f, o.h.k()); }, &rc); std::ostringstream os; os << o.x; c.check("same.print", rc == 0 && got == os.str(), [&] { return "ppl_io_fprint gives '" + got + "', operator<< gives '" + os.str() + "'"; }); }
      { std::string d = xdump(q.x); std::unique_ptr<Obj> nw(clone(o, false)); int rc = e.from_string(OPN(ascii_load), d, [&](FILE* f) { return OPF(ascii_load)(nw->h, f); }); std::istringstream is(d); bool ok = nw->x.ascii_load(is);
        c.check("same.ascii_load", (rc == 0) == ok, [&] { return std::string(OPN(ascii_load)) + " returned " + std::to_string(rc) + " but the C++ ascii_load returned " + (ok ? "true" : "false"); });
        if (ok) { std::string a = cdump(nw->h.k()); c.check("same.ascii_load", a == xdump(nw->x), "the loaded handle differs from the loaded twin"); } nw->h.free_(e); }
      break; }
    default: wrap(o, n, opid); break;
    }
    sync(opid);
    if (e.err_paths > errs0 || was) { ++e.nt_steps; c.nt(); }
  }
  void dimension_change(Obj& o, size_t n, const char*& opid) {
    opid = "dimension_change"; int k = (int) t.range(0, 6); std::string txt;
    if (n >= 5 && (k == 0 || k == 1 || k == 4)) k = 3;
    switch (k) {
    case 0: { size_t m = (size_t) t.range(0, 2); c.log << "add_space_dimensions_and_embed " << m << "\n"; e.both(OPN(add_space_dimensions_and_embed), opid, [&] { return OPF(add_space_dimensions_and_embed)(o.h, m); }, [&] { o.x.add_space_dimensions_and_embed(m); return 0; }); break; }
    case 1: { size_t m = (size_t) t.range(0, 2); c.log << "add_space_dimensions_and_project " << m << "\n"; e.both(OPN(add_space_dimensions_and_project), opid, [&] { return OPF(add_space_dimensions_and_project)(o.h, m); }, [&] { o.x.add_space_dimensions_and_project(m); return 0; }); break; }
    case 2: { std::vector<ppl_dimension_type> vs = gvars(n, &txt); c.log << "remove_space_dimensions " << txt << "\n"; e.both(OPN(remove_space_dimensions), opid, [&] { return OPF(remove_space_dimensions)(o.h, vs.data(), vs.size()); }, [&] { o.x.remove_space_dimensions(vset(vs)); return 0; }); break; }
    case 3: { size_t m = (size_t) t.range(0, (long) n + (t.chance(8) ? 1 : 0)); c.log << "remove_higher_space_dimensions " << m << "\n"; e.both(OPN(remove_higher_space_dimensions), opid, [&] { return OPF(remove_higher_space_dimensions)(o.h, m); }, [&] { o.x.remove_higher_space_dimensions(m); return 0; }); break; }
    case 4: { size_t v = gv(n), m = (size_t) t.range(0, 2); c.log << "expand_space_dimension x" << v << " by " << m << "\n"; e.both(OPN(expand_space_dimension), opid, [&] { return OPF(expand_space_dimension)(o.h, v, m); }, [&] { o.x.expand_space_dimension(Variable(v), m); return 0; }); break; }
    case 5: { size_t v = gv(n); std::vector<ppl_dimension_type> vs; for (size_t d = 0; d < n; ++d) if ((d != v || t.chance(5)) && t.chance(40)) vs.push_back(d); if (t.chance(4)) vs.push_back(n);
      c.log << "fold_space_dimensions {"; for (size_t d : vs) c.log << " x" << d; c.log << " } into x" << v << "\n";
      e.both(OPN(fold_space_dimensions), opid, [&] { return OPF(fold_space_dimensions)(o.h, vs.data(), vs.size(), v); }, [&] { o.x.fold_space_dimensions(vset(vs), Variable(v)); return 0; }); break; }
    default: { // partial injective map given as an array (not_a_dimension = undefined)
      ppl_dimension_type nad; e.ccall("ppl_not_a_dimension", [&] { return ppl_not_a_dimension(&nad); }); c.check("same.not_a_dimension", nad == not_a_dimension(), "ppl_not_a_dimension differs from not_a_dimension()");
      size_t len = n; if (t.chance(6) && n > 0) len = n - 1; std::vector<ppl_dimension_type> maps(len, nad); std::vector<size_t> keep;
      for (size_t d = 0; d < len; ++d) if (t.chance(75)) keep.push_back(d);
      std::vector<size_t> perm(keep.size()); for (size_t d = 0; d < perm.size(); ++d) perm[d] = d;
      for (size_t d = perm.size(); d > 1; --d) std::swap(perm[d - 1], perm[t.range(0, (long) d - 1)]);
      Partial_Function pf; c.log << "map_space_dimensions {";
      for (size_t d = 0; d < keep.size(); ++d) { maps[keep[d]] = perm[d]; pf.insert(keep[d], perm[d]); c.log << " x" << keep[d] << "->x" << perm[d]; } c.log << " } (array length " << len << ")\n";
      std::vector<ppl_dimension_type> before(maps);
      e.both(OPN(map_space_dimensions), opid, [&] { return OPF(map_space_dimensions)(o.h, maps.data(), maps.size()); }, [&] { o.x.map_space_dimensions(pf); return 0; });
      c.check("const.array_argument", maps == before, "map_space_dimensions modified its array argument"); break; }
    }
  }
  void unary_query(Obj& o, size_t n, const char*& opid) {
    opid = "unary_query"; int k = (int) t.range(0, 13); int r = 0;
#define C20_Q(name) { c.log << #name " ?\n"; r = e.both(OPN(name), opid, [&] { return OPF(name)(o.h.k()); }, [&] { return o.x.name() ? 1 : 0; }); }
    switch (k) {
    case 0: C20_Q(is_empty) break; case 1: C20_Q(is_universe) break; case 2: C20_Q(is_bounded) break; case 3: C20_Q(is_topologically_closed) break;
    case 4: C20_Q(is_discrete) break; case 5: C20_Q(OK) break;
#if DOM_CIP && !DOM_POLY && !DOM_PSET   // (branch-and-bound on polyhedra with huge coefficients may not terminate in reasonable time: base library)
    case 6: C20_Q(contains_integer_point) break;
#endif
    case 7: { ppl_dimension_type d = 999; c.log << "space_dimension ?\n"; r = e.both(OPN(space_dimension), opid, [&] { return OPF(space_dimension)(o.h.k(), &d); }, [&] { return 0; }); c.check("same.out.space_dimension", d == o.x.space_dimension(), [&] { return "space_dimension " + std::to_string(d) + " vs C++ " + std::to_string(o.x.space_dimension()); }); r = (int) d; break; }
    case 8: { ppl_dimension_type d = 999; size_t xd = 0; c.log << "affine_dimension ?\n"; r = e.both(OPN(affine_dimension), opid, [&] { return OPF(affine_dimension)(o.h.k(), &d); }, [&] { xd = o.x.affine_dimension(); return 0; }); c.check("same.out.affine_dimension", d == xd, [&] { return "affine_dimension " + std::to_string(d) + " vs C++ " + std::to_string(xd); }); r = (int) d; break; }
    case 9: { size_t v = gv(n); c.log << "constrains x" << v << " ?\n"; r = e.both(OPN(constrains), opid, [&] { return OPF(constrains)(o.h, v); }, [&] { return o.x.constrains(Variable(v)) ? 1 : 0; }); break; }
    case 10: case 11: { LEv le = b.gen_lev(n); PLe l; b.mk_le(l, le); c.log << (k == 10 ? "bounds_from_above " : "bounds_from_below ") << le.str() << " ?\n";
      if (k == 10) r = e.both(OPN(bounds_from_above), opid, [&] { return OPF(bounds_from_above)(o.h.k(), l.h.k()); }, [&] { return o.x.bounds_from_above(l.x) ? 1 : 0; });
      else r = e.both(OPN(bounds_from_below), opid, [&] { return OPF(bounds_from_below)(o.h.k(), l.h.k()); }, [&] { return o.x.bounds_from_below(l.x) ? 1 : 0; });
      l.h.free_(e); break; }
    case 12: { size_t tot = 0, ext = 0; c.log << "memory in bytes ?\n"; int r1 = e.ccall(OPN(total_memory_in_bytes), [&] { return OPF(total_memory_in_bytes)(o.h.k(), &tot); }); int r2 = e.ccall(OPN(external_memory_in_bytes), [&] { return OPF(external_memory_in_bytes)(o.h.k(), &ext); });
      // (capacities may differ between the handle and the twin: only the relation total = sizeof + external is compared)
      c.check("same.out.memory", r1 == 0 && r2 == 0 && tot == ext + sizeof(X), [&] { return "total " + std::to_string(tot) + " external " + std::to_string(ext) + " sizeof " + std::to_string(sizeof(X)); }); break; }
    default: C20_Q(is_empty) break;
    }
    c.log << "      -> " << r << "\n";
  }
  void optimize(Obj& o, size_t n, const char*& opid) {
    opid = "optimize"; int k = (int) t.range(0, DOM_FREQ ? 4 : 3); LEv le = b.gen_lev(n); PLe l; b.mk_le(l, le);
    HCoefficient cn, cd; b.mk_coef(cn, 77); b.mk_coef(cd, 78); Coefficient xn(77), xd(78); int copt = -5; bool xopt = false;
    if (k < 2) { bool mx = k == 0; c.log << (mx ? "maximize " : "minimize ") << le.str() << "\n";
      int r = mx ? e.both(OPN(maximize), opid, [&] { return OPF(maximize)(o.h.k(), l.h.k(), cn, cd, &copt); }, [&] { return o.x.maximize(l.x, xn, xd, xopt) ? 1 : 0; })
                 : e.both(OPN(minimize), opid, [&] { return OPF(minimize)(o.h.k(), l.h.k(), cn, cd, &copt); }, [&] { return o.x.minimize(l.x, xn, xd, xopt) ? 1 : 0; });
      if (r > 0) { mpz_class a = b.rd(cn.k()), d = b.rd(cd.k()); c.check("same.out.optimize", a == mpz_class(xn) && d == mpz_class(xd) && copt == (xopt ? 1 : 0), [&] { return "extremum " + zs(a) + "/" + zs(d) + " attained " + std::to_string(copt) + "; C++ " + zs(mpz_class(xn)) + "/" + zs(mpz_class(xd)) + " attained " + std::to_string(xopt); }); c.log << "      -> " << zs(a) << "/" << zs(d) << (copt ? " max" : " sup") << "\n"; }
      else if (r == 0) c.check("same.out.optimize", copt == -5, "poptimum written although the function returned 0"); }
    else if (k < 4) { bool mx = k == 2; c.log << (mx ? "maximize_with_point " : "minimize_with_point ") << le.str() << "\n"; PGen g; g.h.got(e.ccall("ppl_new_Generator_zero_dim_point", [&] { return ppl_new_Generator_zero_dim_point(g.h.out()); })); c.check("same.generator", g.h.p != 0, "no generator");
      int r = mx ? e.both(OPN(maximize_with_point), opid, [&] { return OPF(maximize_with_point)(o.h.k(), l.h.k(), cn, cd, &copt, g.h); }, [&] { return o.x.maximize(l.x, xn, xd, xopt, g.x) ? 1 : 0; })
                 : e.both(OPN(minimize_with_point), opid, [&] { return OPF(minimize_with_point)(o.h.k(), l.h.k(), cn, cd, &copt, g.h); }, [&] { return o.x.minimize(l.x, xn, xd, xopt, g.x) ? 1 : 0; });
      if (r > 0) { mpz_class a = b.rd(cn.k()), d = b.rd(cd.k()); c.check("same.out.optimize", a == mpz_class(xn) && d == mpz_class(xd) && copt == (xopt ? 1 : 0), [&] { return "extremum " + zs(a) + "/" + zs(d) + " attained " + std::to_string(copt) + "; C++ " + zs(mpz_class(xn)) + "/" + zs(mpz_class(xd)) + " attained " + std::to_string(xopt); }); b.same_gen(g.h.k(), g.x, "optimizing point"); }
      g.h.free_(e); }
#if DOM_FREQ
    else { c.log << "frequency " << le.str() << "\n"; HCoefficient vn, vd; b.mk_coef(vn, 79); b.mk_coef(vd, 80); Coefficient yn(79), yd(80);
      int r = e.both(OPN(frequency), opid, [&] { return OPF(frequency)(o.h.k(), l.h.k(), cn, cd, vn, vd); }, [&] { return o.x.frequency(l.x, xn, xd, yn, yd) ? 1 : 0; });
      if (r >= 0) c.check("same.out.frequency", b.rd(cn.k()) == mpz_class(xn) && b.rd(cd.k()) == mpz_class(xd) && b.rd(vn.k()) == mpz_class(yn) && b.rd(vd.k()) == mpz_class(yd), "frequency results differ");
      vn.free_(e); vd.free_(e); }
#endif
    l.h.free_(e); cn.free_(e); cd.free_(e);
  }
  // A const handle returned through a pointer argument must designate an object that outlives
  // the call: a handle pointing into the (dead) stack frame of the C function is a dangling one.
  static bool in_dead_stack(const void* p, const void* live_local) { uintptr_t q = (uintptr_t) p, a = (uintptr_t) live_local; return q < a && a - q < (1ul << 20); }
// (the twin's system is compared in place when the C++ getter returns a reference: a copy would merge the pending rows and lose the sortedness flag)
template <class SYS> static const SYS* c20_hold(const SYS& ref, SYS&) { return &ref; }
template <class SYS> static const SYS* c20_hold(SYS&& tmp, SYS& store) { store.m_swap(tmp); return &store; }
#define C20_GET(cname, SYS, xcall, cmpf) { c.log << #cname "\n"; ppl_const_##SYS##_t cs = 0; SYS xs_store; const SYS* xp = 0; char probe = 0; \
    int r = e.both(OPN(cname), opid, [&] { return OPF(cname)(o.h.k(), &cs); }, [&] { xp = c20_hold<SYS>(o.x.xcall(), xs_store); return 0; }); \
    if (r == 0) { if (in_dead_stack(cs, &probe)) { if (vf::kf("KF-C20-4")) { c.excluded("KF-C20-4"); break; } \
        c.check("own.result_outlives_call.getter", false, std::string(OPN(cname)) + " returned a handle to an object living in its own (already popped) stack frame: the C++ getter returns by value and the interface takes the address of the temporary"); break; } \
      b.cmpf(cs, *xp, #cname); } break; }
  void getters(Obj& o, Obj& q, size_t, const char*& opid) {
    opid = "getters"; (void) o; (void) q;
#if DOM_GETCS
    int k = (int) t.range(0, DOM_POLY ? 5 : DOM_GRID ? 5 : 3); if (DOM_LINPART && t.chance(12)) k = 9;
    switch (k) {
    case 0: C20_GET(get_constraints, Constraint_System, constraints, same_Constraint_System)
    case 1: C20_GET(get_minimized_constraints, Constraint_System, minimized_constraints, same_Constraint_System)
    case 2: C20_GET(get_congruences, Congruence_System, congruences, same_Congruence_System)
    case 3: C20_GET(get_minimized_congruences, Congruence_System, minimized_congruences, same_Congruence_System)
#if DOM_POLY
    case 4: C20_GET(get_generators, Generator_System, generators, same_Generator_System)
    case 5: C20_GET(get_minimized_generators, Generator_System, minimized_generators, same_Generator_System)
#elif DOM_GRID
    case 4: C20_GET(get_grid_generators, Grid_Generator_System, grid_generators, same_Grid_Generator_System)
    case 5: C20_GET(get_minimized_grid_generators, Grid_Generator_System, minimized_grid_generators, same_Grid_Generator_System)
#endif
#if DOM_LINPART
    case 9: { c.log << "linear_partition with the other object\n"; HT inters = 0; ppl_Pointset_Powerset_NNC_Polyhedron_t rest = 0; char probe = 0;
      std::pair<X, Pointset_Powerset<NNC_Polyhedron> > xr(o.x, Pointset_Powerset<NNC_Polyhedron>(0, EMPTY));
      int r = e.both(OPN(linear_partition), opid, [&] { return OPF(linear_partition)(o.h.k(), q.h.k(), &inters, &rest); }, [&] { std::pair<X, Pointset_Powerset<NNC_Polyhedron> > tmp = linear_partition(o.x, q.x); xr.first.m_swap(tmp.first); xr.second.m_swap(tmp.second); return 0; });   // (swapped, not assigned: an assignment would drop the parts that are not up to date)
      if (r == 0) { if (in_dead_stack(inters, &probe) || in_dead_stack(rest, &probe)) { if (vf::kf("KF-C20-5")) { c.excluded("KF-C20-5"); break; }
          c.check("own.result_outlives_call.linear_partition", false, std::string(OPN(linear_partition)) + " returned handles to objects living in its own (already popped) stack frame"); break; }
        std::string a = cdump(inters); c.check("same.out.linear_partition", a == xdump(xr.first), [&] { return "linear_partition: intersection differs:\n" + a + "--- C++:\n" + xdump(xr.first); });
        b.same_dump("ppl_Pointset_Powerset_NNC_Polyhedron_ascii_dump", [&](FILE* f) { return ppl_Pointset_Powerset_NNC_Polyhedron_ascii_dump(rest, f); }, xr.second);
        int d1 = e.ccall(C20_STR(C20_CAT(ppl_delete_, DOM_OT, , )), [&] { return C20_CAT(ppl_delete_, DOM_OT, , )(inters); }); int d2 = e.ccall("ppl_delete_Pointset_Powerset_NNC_Polyhedron", [&] { return ppl_delete_Pointset_Powerset_NNC_Polyhedron(rest); }); c.check("own.delete", d1 == 0 && d2 == 0, "deleting the results of linear_partition failed"); }
      break; }
#endif
    default: break;
    }
#else
    c.log << "(no getters offered)\n";
#endif
  }
  // Widenings need y included in x: performed on a scratch copy x' = x joined with y.
  void widen(Obj& o, Obj& q, size_t j, const char*& opid) {
    opid = "widening"; std::unique_ptr<Obj> w(clone(o, false));
    int r0 = e.both(OPN(upper_bound_assign), opid, [&] { return OPF(upper_bound_assign)(w->h, q.h.k()); }, [&] { w->x.upper_bound_assign(q.x); return 0; });
    if (r0 < 0) { c.log << "widening skipped (join with obj" << j << " failed)\n"; w->h.free_(e); return; }
    unsigned ctok = (unsigned) t.range(0, 2), xtok = ctok; bool tokens = t.chance(50); (void) tokens;
    int nw = 0
#define C20_W(name) + 1
      DOM_WIDENINGS(C20_W)
#undef C20_W
      ;
    int lim = 0
#define C20_L(name) + 1
      DOM_LIMITED(C20_L)
#undef C20_L
      ;
    int total = nw + lim + (DOM_WIDEN ? 1 : 0) + DOM_NARROW; int k = (int) t.range(0, total > 0 ? total - 1 : 0); int idx = 0; (void) k; (void) idx; (void) xtok;
    if (total == 0) c.log << "(no widening offered)\n";
#if DOM_WIDEN
    if (k == idx++) { c.log << "widening_assign" << (tokens ? "_with_tokens(" + std::to_string(ctok) + ")" : std::string()) << " (obj" << j << " joined into a copy)\n";
      if (tokens) e.both(OPN(widening_assign_with_tokens), opid, [&] { return OPF(widening_assign_with_tokens)(w->h, q.h.k(), &ctok); }, [&] { w->x.widening_assign(q.x, &xtok); return 0; });
      else e.both(OPN(widening_assign), opid, [&] { return OPF(widening_assign)(w->h, q.h.k()); }, [&] { w->x.widening_assign(q.x); return 0; }); }
#endif
#define C20_W(name) if (k == idx++) { c.log << #name << (tokens ? "_with_tokens(" + std::to_string(ctok) + ")" : std::string()) << " (obj" << j << " joined into a copy)\n"; \
      if (tokens) e.both(OPN(name##_with_tokens), opid, [&] { return OPF(name##_with_tokens)(w->h, q.h.k(), &ctok); }, [&] { w->x.name(q.x, &xtok); return 0; }); \
      else e.both(OPN(name), opid, [&] { return OPF(name)(w->h, q.h.k()); }, [&] { w->x.name(q.x); return 0; }); }
    DOM_WIDENINGS(C20_W)
#undef C20_W
#define C20_L(name) if (k == idx++ && w->x.space_dimension() > 0) { PCs cs; std::string txt; b.no_false_cs = true; b.gen_cs(cs, w->x.space_dimension(), 3, nnc, &txt); b.no_false_cs = false; c.log << #name << (tokens ? "_with_tokens(" + std::to_string(ctok) + ")" : std::string()) << " up to " << txt << "\n"; \
      if (tokens) e.both(OPN(name##_with_tokens), opid, [&] { return OPF(name##_with_tokens)(w->h, q.h.k(), cs.h.k(), &ctok); }, [&] { w->x.name(q.x, cs.x, &xtok); return 0; }); \
      else e.both(OPN(name), opid, [&] { return OPF(name)(w->h, q.h.k(), cs.h.k()); }, [&] { w->x.name(q.x, cs.x); return 0; }); cs.h.free_(e); }
    DOM_LIMITED(C20_L)
#undef C20_L
#if DOM_NARROW
    if (k == idx++) { c.log << "CC76_narrowing_assign (a copy of obj" << j << " narrowed with the join)\n"; std::unique_ptr<Obj> v(clone(q, false));
      e.both(OPN(CC76_narrowing_assign), opid, [&] { return OPF(CC76_narrowing_assign)(v->h, w->h.k()); }, [&] { v->x.CC76_narrowing_assign(w->x); return 0; });
      { std::string a = cdump(v->h.k()); c.check("same.state.widening", a == xdump(v->x), "narrowed handle differs from the narrowed twin"); } v->h.free_(e); }
#endif
    c.check("same.out.tokens", ctok == xtok, [&] { return "tokens left " + std::to_string(ctok) + " vs C++ " + std::to_string(xtok); });
    { std::string a = cdump(w->h.k()); c.check("same.state.widening", a == xdump(w->x), [&] { return "widened handle differs from the widened twin\n" + a + "--- C++:\n" + xdump(w->x); }); }
    w->h.free_(e);
  }
  void extras(Obj& o, Obj& q, size_t j, size_t n, const char*& opid) {
    opid = "extras"; std::string txt; (void) q; (void) j; (void) n;
#if DOM_POLY
    int k = (int) t.range(0, 3);
    if (k == 0) { PGen g; if (!b.gen_gen(g, n, nnc, &txt)) { c.log << "(ill-formed generator " << txt << ")\n"; return; } c.log << "add_generator " << txt << "\n";
      e.both(OPN(add_generator), opid, [&] { return OPF(add_generator)(o.h, g.h.k()); }, [&] { o.x.add_generator(g.x); return 0; }); b.same_gen(g.h.k(), g.x, "const argument"); g.h.free_(e); }
    else if (k == 1 || k == 2) { PGs gs; b.gen_gs(gs, n, 3, nnc, t.chance(60), &txt); c.log << (k == 1 ? "add_generators " : "add_recycled_generators ") << txt << "\n";
      if (k == 1) { e.both(OPN(add_generators), opid, [&] { return OPF(add_generators)(o.h, gs.h.k()); }, [&] { o.x.add_generators(gs.x); return 0; }); b.same_Generator_System(gs.h.k(), gs.x, "const argument"); }
      else e.both(OPN(add_recycled_generators), opid, [&] { return OPF(add_recycled_generators)(o.h, gs.h); }, [&] { o.x.add_recycled_generators(gs.x); return 0; });
      gs.h.free_(e); }
    else { // C <-> NNC conversion constructors
      HPolyhedron h2; c.log << "conversion to the other topology and back\n";
#if DOM_NNC
      C_Polyhedron other(n); int r = e.both("ppl_new_C_Polyhedron_from_NNC_Polyhedron", opid, [&] { return ppl_new_C_Polyhedron_from_NNC_Polyhedron(h2.out(), o.h.k()); }, [&] { other = C_Polyhedron(o.x); return 0; }); h2.got(r);
      if (r == 0) { b.same_dump("ppl_Polyhedron_ascii_dump", [&](FILE* f) { return ppl_Polyhedron_ascii_dump(h2.k(), f); }, other); h2.free_(e); }
#else
      NNC_Polyhedron other(n); int r = e.both("ppl_new_NNC_Polyhedron_from_C_Polyhedron", opid, [&] { return ppl_new_NNC_Polyhedron_from_C_Polyhedron(h2.out(), o.h.k()); }, [&] { other = NNC_Polyhedron(o.x); return 0; }); h2.got(r);
      if (r == 0) { b.same_dump("ppl_Polyhedron_ascii_dump", [&](FILE* f) { return ppl_Polyhedron_ascii_dump(h2.k(), f); }, other); h2.free_(e); }
#endif
    }
#elif DOM_GRID
    int k = (int) t.range(0, 2);
    if (k == 0) { PGg g; if (!b.gen_gg(g, n, &txt)) { c.log << "(ill-formed grid generator " << txt << ")\n"; return; } c.log << "add_grid_generator " << txt << "\n";
      e.both(OPN(add_grid_generator), opid, [&] { return OPF(add_grid_generator)(o.h, g.h.k()); }, [&] { o.x.add_grid_generator(g.x); return 0; }); b.same_gg(g.h.k(), g.x, "const argument"); g.h.free_(e); }
    else { PGgs gs; b.gen_ggs(gs, n, 3, t.chance(60), &txt); c.log << (k == 1 ? "add_grid_generators " : "add_recycled_grid_generators ") << txt << "\n";
      if (k == 1) { e.both(OPN(add_grid_generators), opid, [&] { return OPF(add_grid_generators)(o.h, gs.h.k()); }, [&] { o.x.add_grid_generators(gs.x); return 0; }); b.same_Grid_Generator_System(gs.h.k(), gs.x, "const argument"); }
      else e.both(OPN(add_recycled_grid_generators), opid, [&] { return OPF(add_recycled_grid_generators)(o.h, gs.h); }, [&] { o.x.add_recycled_grid_generators(gs.x); return 0; });
      gs.h.free_(e); }
#elif DOM_PSET
    int k = (int) t.range(0, 7);
    switch (k) {
    case 0: { size_t sz = 999; c.log << "size ?\n"; int r = e.ccall(OPN(size), [&] { return OPF(size)(o.h.k(), &sz); }); c.check("same.out.size", r == 0 && sz == o.x.size(), [&] { return "size " + std::to_string(sz) + " vs C++ " + std::to_string(o.x.size()); }); break; }
    case 1: { PCs cs; b.gen_cs(cs, n, 3, false, &txt); HPolyhedron ph; C_Polyhedron xp(n); int r0 = e.both("ppl_new_C_Polyhedron_from_Constraint_System", "new_from_cs", [&] { return ppl_new_C_Polyhedron_from_Constraint_System(ph.out(), cs.h.k()); }, [&] { xp = C_Polyhedron(cs.x); return 0; }); ph.got(r0); cs.h.free_(e);
      if (r0 == 0) { c.log << "add_disjunct " << txt << "\n"; e.both(OPN(add_disjunct), opid, [&] { return OPF(add_disjunct)(o.h, ph.k()); }, [&] { o.x.add_disjunct(xp); return 0; }); b.same_dump("ppl_Polyhedron_ascii_dump", [&](FILE* f) { return ppl_Polyhedron_ascii_dump(ph.k(), f); }, xp); ph.free_(e); } else c.log << "(ill-formed disjunct)\n";
      break; }
    case 2: c.log << "omega_reduce\n"; e.both(OPN(omega_reduce), opid, [&] { return OPF(omega_reduce)(o.h); }, [&] { o.x.omega_reduce(); return 0; }); break;
    case 3: c.log << "pairwise_reduce\n"; e.both(OPN(pairwise_reduce), opid, [&] { return OPF(pairwise_reduce)(o.h); }, [&] { o.x.pairwise_reduce(); return 0; }); break;
    case 4: { c.log << "geometrically_covers / geometrically_equals obj" << j << " ?\n";
      e.both(OPN2(geometrically_covers_), opid, [&] { return OPF2(geometrically_covers_)(o.h.k(), q.h.k()); }, [&] { return o.x.geometrically_covers(q.x) ? 1 : 0; });
      e.both(OPN2(geometrically_equals_), opid, [&] { return OPF2(geometrically_equals_)(o.h.k(), q.h.k()); }, [&] { return o.x.geometrically_equals(q.x) ? 1 : 0; }); break; }
    case 5: { // iterate over the disjuncts with the const iterators, in lock step with the twin
      c.log << "iterate over the disjuncts (const_iterator)\n"; HPointset_Powerset_C_Polyhedron_const_iterator it, end;
      it.got(e.ccall("ppl_new_Pointset_Powerset_C_Polyhedron_const_iterator", [&] { return ppl_new_Pointset_Powerset_C_Polyhedron_const_iterator(it.out()); }));
      end.got(e.ccall("ppl_new_Pointset_Powerset_C_Polyhedron_const_iterator", [&] { return ppl_new_Pointset_Powerset_C_Polyhedron_const_iterator(end.out()); }));
      c.check("same.disjuncts", it.p && end.p, "no iterators"); e.ccall(OPN(const_iterator_begin), [&] { return OPF(const_iterator_begin)(o.h.k(), it); }); e.ccall(OPN(const_iterator_end), [&] { return OPF(const_iterator_end)(o.h.k(), end); });
      X::const_iterator xi = o.x.begin(), xe = o.x.end(); size_t pos = 0;
      for (;; ++xi, ++pos) { int at_end = e.ccall(OPN(const_iterator_equal_test), [&] { return OPF(const_iterator_equal_test)(it.k(), end.k()); });
        c.check("same.disjuncts", (at_end > 0) == (xi == xe), [&] { return "C iteration over disjuncts out of step with C++ at position " + std::to_string(pos); }); if (xi == xe) break;
        ppl_const_Polyhedron_t d = 0; int r = e.ccall(OPN(const_iterator_dereference), [&] { return OPF(const_iterator_dereference)(it.k(), &d); }); c.check("same.disjuncts", r == 0 && d, "dereference failed");
        b.same_dump("ppl_Polyhedron_ascii_dump", [&](FILE* f) { return ppl_Polyhedron_ascii_dump(d, f); }, xi->pointset());
        e.ccall(OPN(const_iterator_increment), [&] { return OPF(const_iterator_increment)(it); }); }
      if (pos > 0) { e.ccall(OPN(const_iterator_decrement), [&] { return OPF(const_iterator_decrement)(it); }); ppl_const_Polyhedron_t d = 0; e.ccall(OPN(const_iterator_dereference), [&] { return OPF(const_iterator_dereference)(it.k(), &d); }); X::const_iterator xl = o.x.end(); --xl; b.same_dump("ppl_Polyhedron_ascii_dump", [&](FILE* f) { return ppl_Polyhedron_ascii_dump(d, f); }, xl->pointset());
        HPointset_Powerset_C_Polyhedron_const_iterator cp; cp.got(e.ccall("ppl_new_Pointset_Powerset_C_Polyhedron_const_iterator_from_const_iterator", [&] { return ppl_new_Pointset_Powerset_C_Polyhedron_const_iterator_from_const_iterator(cp.out(), it.k()); }));
        int eq = e.ccall(OPN(const_iterator_equal_test), [&] { return OPF(const_iterator_equal_test)(it.k(), cp.k()); }); c.check("same.disjuncts", eq > 0, "copied const_iterator differs"); cp.free_(e); }
      it.free_(e); end.free_(e); break; }
    case 6: { // drop the first disjunct through the non-const iterators
      c.log << "drop_disjunct (first)\n"; if (o.x.size() == 0) break; HPointset_Powerset_C_Polyhedron_iterator it, nx, end;
      it.got(e.ccall("ppl_new_Pointset_Powerset_C_Polyhedron_iterator", [&] { return ppl_new_Pointset_Powerset_C_Polyhedron_iterator(it.out()); }));
      nx.got(e.ccall("ppl_new_Pointset_Powerset_C_Polyhedron_iterator_from_iterator", [&] { return ppl_new_Pointset_Powerset_C_Polyhedron_iterator_from_iterator(nx.out(), it.k()); }));
      end.got(e.ccall("ppl_new_Pointset_Powerset_C_Polyhedron_iterator", [&] { return ppl_new_Pointset_Powerset_C_Polyhedron_iterator(end.out()); })); c.check("same.disjuncts", it.p && nx.p && end.p, "no iterators");
      e.ccall(OPN(iterator_begin), [&] { return OPF(iterator_begin)(o.h, it); }); e.ccall(OPN(iterator_end), [&] { return OPF(iterator_end)(o.h, end); });
      X::iterator xn = o.x.end();
      if (t.chance(70)) { e.both(OPN(drop_disjunct), opid, [&] { return OPF(drop_disjunct)(o.h, it.k(), nx); }, [&] { xn = o.x.drop_disjunct(o.x.begin()); return 0; });
        e.ccall(OPN(iterator_end), [&] { return OPF(iterator_end)(o.h, end); }); int at_end = e.ccall(OPN(iterator_equal_test), [&] { return OPF(iterator_equal_test)(nx.k(), end.k()); });
        c.check("same.disjuncts", (at_end > 0) == (xn == o.x.end()), "iterator returned by drop_disjunct out of step with C++");
        if (at_end == 0) { ppl_const_Polyhedron_t d = 0; e.ccall(OPN(iterator_dereference), [&] { return OPF(iterator_dereference)(nx.k(), &d); }); b.same_dump("ppl_Polyhedron_ascii_dump", [&](FILE* f) { return ppl_Polyhedron_ascii_dump(d, f); }, xn->pointset());
          e.ccall(OPN(iterator_increment), [&] { return OPF(iterator_increment)(nx); }); e.ccall(OPN(iterator_decrement), [&] { return OPF(iterator_decrement)(nx); }); } }
      else { c.log << "      (drop_disjuncts: all)\n"; e.both(OPN(drop_disjuncts), opid, [&] { return OPF(drop_disjuncts)(o.h, it.k(), end.k()); }, [&] { o.x.drop_disjuncts(o.x.begin(), o.x.end()); return 0; }); }
      it.free_(e); nx.free_(e); end.free_(e); break; }
    default: { // powerset widenings on a scratch copy containing obj j
      std::unique_ptr<Obj> w(clone(o, false)); int r0 = e.both(OPN(upper_bound_assign), opid, [&] { return OPF(upper_bound_assign)(w->h, q.h.k()); }, [&] { w->x.upper_bound_assign(q.x); return 0; });
      if (r0 == 0) { int wk = (int) t.range(0, 3); unsigned dj = (unsigned) t.range(1, 3);
        if (wk == 0) { c.log << "BHZ03_BHRZ03_BHRZ03_widening_assign\n"; e.both(OPN(BHZ03_BHRZ03_BHRZ03_widening_assign), opid, [&] { return OPF(BHZ03_BHRZ03_BHRZ03_widening_assign)(w->h, q.h.k()); }, [&] { w->x.BHZ03_widening_assign<BHRZ03_Certificate>(q.x, widen_fun_ref(&Polyhedron::BHRZ03_widening_assign)); return 0; }); }
        else if (wk == 1) { c.log << "BHZ03_H79_H79_widening_assign\n"; e.both(OPN(BHZ03_H79_H79_widening_assign), opid, [&] { return OPF(BHZ03_H79_H79_widening_assign)(w->h, q.h.k()); }, [&] { w->x.BHZ03_widening_assign<H79_Certificate>(q.x, widen_fun_ref(&Polyhedron::H79_widening_assign)); return 0; }); }
        else if (wk == 2) { c.log << "BGP99_BHRZ03_extrapolation_assign " << dj << "\n"; e.both(OPN(BGP99_BHRZ03_extrapolation_assign), opid, [&] { return OPF(BGP99_BHRZ03_extrapolation_assign)(w->h, q.h.k(), dj); }, [&] { w->x.BGP99_extrapolation_assign(q.x, widen_fun_ref(&Polyhedron::BHRZ03_widening_assign), dj); return 0; }); }
        else { c.log << "BGP99_H79_extrapolation_assign " << dj << "\n"; e.both(OPN(BGP99_H79_extrapolation_assign), opid, [&] { return OPF(BGP99_H79_extrapolation_assign)(w->h, q.h.k(), dj); }, [&] { w->x.BGP99_extrapolation_assign(q.x, widen_fun_ref(&Polyhedron::H79_widening_assign), dj); return 0; }); }
        std::string a = cdump(w->h.k()); c.check("same.state.widening", a == xdump(w->x), "widened powerset handle differs from the widened twin"); }
      w->h.free_(e); break; }
    }
#else
    c.log << "(no extras)\n";
#endif
  }
  // Memory exhaustion: the k-th allocation performed inside ONE C call on a scratch copy throws.
  // The call must succeed or return PPL_ERROR_OUT_OF_MEMORY (handler invoked); the scratch handle
  // must remain deletable.  (The twin is not involved: after an interrupted mutator the content
  // is unspecified.)
  void inject_oom(Obj& o, size_t n, const char*& opid) {
    opid = "oom";
#if DOM_PSET
    // powerset disjuncts are shared copy-on-write between a copy and its source: an interrupted
    // operation on the scratch copy would change the lazy state of the pool object itself
    c.log << "(no allocation-failure injection for powersets)\n"; (void) o; (void) n; return;
#endif
    std::unique_ptr<Obj> w(clone(o, false)); long k = t.range(1, 40); int which = (int) t.range(0, 5); std::string txt; int rc = 0; const char* nm = "";
    PCs cs; b.gen_cs(cs, n, 3, nnc, &txt); PLe l; LEv le = b.gen_lev(n, false); b.mk_le(l, le); HCoefficient k1; b.mk_coef(k1, 1);
    HH extra; int exp = 0; X cp(o.x);   // what the call returns when no allocation fails
    switch (which) {
    case 0: exp = e.expect([&] { cp.add_constraints(cs.x); return 0; }); break;
    case 1: exp = e.expect([&] { return cp.is_empty() ? 1 : 0; }); break;
    case 3: exp = e.expect([&] { cp.affine_image(Variable(0), l.x, Coefficient(1)); return 0; }); break;
    case 4: exp = e.expect([&] { X tmp(cs.x); return 0; }); break;
    default: break;
    }
    e.arm_next = k;
    switch (which) {
    case 0: nm = OPN(add_constraints); rc = e.ccall(nm, [&] { return OPF(add_constraints)(w->h, cs.h.k()); }); break;
    case 1: nm = OPN(is_empty); rc = e.ccall(nm, [&] { return OPF(is_empty)(w->h.k()); }); break;
    case 2: nm = NEWCOPYN; rc = e.ccall(nm, [&] { return NEWCOPYF(extra.out(), w->h.k()); }); extra.got(rc); break;
    case 3: nm = OPN(affine_image); rc = e.ccall(nm, [&] { return OPF(affine_image)(w->h, 0, l.h.k(), k1.k()); }); break;
    case 4: nm = NEWN(from_Constraint_System); rc = e.ccall(nm, [&] { return NEWF(from_Constraint_System)(extra.out(), cs.h.k()); }); extra.got(rc); break;
    default: { nm = "ppl_io_asprint_" C20_STR(DOM_OT); char* s = 0; rc = e.ccall(nm, [&] { return C20_CAT(ppl_io_asprint_, DOM_OT, , )(&s, w->h.k()); }); if (rc == 0 && s) std::free(s); break; }
    }
    bool fired = e.oom_fired; c.log << "allocation failure injected at allocation " << k << " of " << nm << " on a copy: " << (fired ? "fired" : "not reached") << ", returned " << rc << "\n";
    // (the string output functions report a failed allocation inside the stream as PPL_STDIO_ERROR)
    if (fired) c.check("oom.code", rc == PPL_ERROR_OUT_OF_MEMORY || rc == exp || (rc >= 0 && exp >= 0) || (which == 5 && rc == PPL_STDIO_ERROR), [&] { return std::string(nm) + " returned " + std::to_string(rc) + " (" + g_err.desc + ") when an allocation failed inside it; without the failure the C++ operation gives " + std::to_string(exp); });
    else c.check("same.ret.oom_not_reached", rc == exp || which == 2 || which == 5 || (which == 1 && rc >= 0), [&] { return std::string(nm) + " returned " + std::to_string(rc) + ", C++ gives " + std::to_string(exp); });
    extra.free_(e); cs.h.free_(e); l.h.free_(e); k1.free_(e); w->h.free_(e);
  }
  // Deterministic timeout around one call on a scratch copy: normal completion or
  // PPL_TIMEOUT_EXCEPTION (handler invoked); afterwards the interface must work normally.
  void det_timeout(Obj& o, size_t n, const char*& opid) {
    opid = "timeout";
#if DOM_PSET
    c.log << "(no timeout injection for powersets)\n"; (void) o; (void) n; return;
#endif
     std::unique_ptr<Obj> w(clone(o, false)), w2(clone(o, false)); unsigned long wgt = (unsigned long) t.range(1, 30); unsigned scale = (unsigned) t.range(0, 2); std::string txt;
    PCs cs; b.gen_cs(cs, n, 4, nnc, &txt);
    int a1 = e.both(OPN(add_constraints), "add_constraints", [&] { return OPF(add_constraints)(w->h, cs.h.k()); }, [&] { w->x.add_constraints(cs.x); return 0; });
    e.both(OPN(add_constraints), "add_constraints", [&] { return OPF(add_constraints)(w2->h, cs.h.k()); }, [&] { w2->x.add_constraints(cs.x); return 0; }); cs.h.free_(e);
    if (wgt == 30 && scale == 2) {
      // REAL timeout (1/90 of the timeout operations): ppl_set_timeout(1) and a spin until the watchdog has fired (its clock is the CPU time
      // of this process, which the spin consumes).  Nothing below depends on WHEN it fires; if it is not seen within the spin cap the
      // case says nothing.  After an expired timeout was reported (PPL_TIMEOUT_EXCEPTION) the interface must behave as with no timeout.
      c.log << "real timeout of 1 csec around is_bounded of a copy with " << txt << "\n";
      int q0 = e.ccall("ppl_set_timeout", [&] { return ppl_set_timeout(1); }); c.check("same.ret.set_timeout", q0 == 0, "ppl_set_timeout(1) failed");
      volatile unsigned long spin = 0; while (Parma_Polyhedra_Library::abandon_expensive_computations == 0 && spin < 3000000000UL) spin = spin + 1;
      bool seen = Parma_Polyhedra_Library::abandon_expensive_computations != 0; c.tag(seen ? "real timeout fired" : "real timeout not observed within the spin cap");
      if (seen) {
        int rc = e.ccall(OPN(is_bounded), [&] { return OPF(is_bounded)(w->h.k()); }); int x1 = e.expect([&] { return w->x.is_bounded() ? 1 : 0; });
        c.check("timeout.code", rc == x1 || rc == PPL_TIMEOUT_EXCEPTION, [&] { return std::string(OPN(is_bounded)) + " after a real timeout fired returned " + std::to_string(rc) + " (" + g_err.desc + "), C++ without timeout gives " + std::to_string(x1); });
        if (rc == PPL_TIMEOUT_EXCEPTION && a1 == 0) {
          c.tag("real timeout reported");
          int r2 = e.ccall(OPN(is_bounded), [&] { return OPF(is_bounded)(w2->h.k()); }); int x2 = e.expect([&] { return w2->x.is_bounded() ? 1 : 0; });
          c.check("timeout.state_after_expiry", r2 == x2, [&] { return "after a real timeout expired and was reported (no timeout is set any more) " + std::string(OPN(is_bounded)) + " on an identical copy returned " + std::to_string(r2) + " (" + g_err.desc + "), C++ gives " + std::to_string(x2); });
        }
      }
      int q1 = e.ccall("ppl_reset_timeout", [&] { return ppl_reset_timeout(); }); c.check("timeout.reset", q1 == 0, "ppl_reset_timeout failed");
      c.check("timeout.pointer_cleared", Parma_Polyhedra_Library::abandon_expensive_computations == 0, "abandon_expensive_computations is still set after ppl_reset_timeout()");
      { std::unique_ptr<Obj> v(clone(o, false)); e.both(OPN(is_bounded), "timeout_after_reset", [&] { return OPF(is_bounded)(v->h.k()); }, [&] { X cp(o.x); return cp.is_bounded() ? 1 : 0; }); v->h.free_(e); }
      w->h.free_(e); w2->h.free_(e);
      return;
    }
    c.log << "deterministic timeout " << wgt << "*2^" << scale << " around is_bounded of a copy with " << txt << "\n";
    int r0 = e.ccall("ppl_set_deterministic_timeout", [&] { return ppl_set_deterministic_timeout(wgt, scale); }); c.check("same.ret.set_det_timeout", r0 == 0, "ppl_set_deterministic_timeout failed");
    int rc = e.ccall(OPN(is_bounded), [&] { return OPF(is_bounded)(w->h.k()); });
    int x1 = e.expect([&] { return w->x.is_bounded() ? 1 : 0; });
    c.check("timeout.code", rc == x1 || rc == PPL_TIMEOUT_EXCEPTION, [&] { return std::string(OPN(is_bounded)) + " under a deterministic timeout returned " + std::to_string(rc) + " (" + g_err.desc + "), C++ without timeout gives " + std::to_string(x1); });
    if (rc == PPL_TIMEOUT_EXCEPTION && a1 == 0) {   // expired: the interface resets an expired timeout itself (CATCH_ALL); the same query on an identical copy must now complete
      c.tag("timeout expired");
      int r2 = e.ccall(OPN(is_bounded), [&] { return OPF(is_bounded)(w2->h.k()); }); int x2 = e.expect([&] { return w2->x.is_bounded() ? 1 : 0; });
      c.check("timeout.state_after_expiry", r2 == x2, [&] { return "after a deterministic timeout expired (and before any reset) " + std::string(OPN(is_bounded)) + " on an identical copy returned " + std::to_string(r2) + " (" + g_err.desc + "), C++ gives " + std::to_string(x2); });
    }
    int r1 = e.ccall("ppl_reset_deterministic_timeout", [&] { return ppl_reset_deterministic_timeout(); }); c.check("timeout.reset", r1 == 0, "ppl_reset_deterministic_timeout failed");
    { std::unique_ptr<Obj> v(clone(o, false)); e.both(OPN(is_bounded), "timeout_after_reset", [&] { return OPF(is_bounded)(v->h.k()); }, [&] { X cp(o.x); return cp.is_bounded() ? 1 : 0; }); v->h.free_(e); }
    w->h.free_(e); w2->h.free_(e);
  }
  void wrap(Obj& o, size_t n, const char*& opid) {
    opid = "wrap"; (void) o; (void) n;
#if DOM_WRAP
    std::string txt, ctxt; std::vector<ppl_dimension_type> vs = gvars(n, &txt); static const int W[5] = { 8, 16, 32, 64, 128 }; int w = W[t.range(0, 4)]; int r = (int) t.range(0, 1), ov = (int) t.range(0, 2);
    PCs cs; b.gen_cs(cs, n, 2, false, &ctxt); unsigned thr = (unsigned) t.range(0, 16); int ind = (int) t.range(0, 1); ppl_const_Constraint_System_t pcs = cs.h.k();
    static const Bounded_Integer_Type_Width XW[5] = { BITS_8, BITS_16, BITS_32, BITS_64, BITS_128 }; Bounded_Integer_Type_Width xw = BITS_8; for (int i = 0; i < 5; ++i) if (W[i] == w) xw = XW[i];
    c.log << "wrap_assign " << txt << " " << w << " bits " << (r ? "signed" : "unsigned") << " overflow " << ov << " cs " << ctxt << " threshold " << thr << " individually " << ind << "\n";
    e.both(OPN(wrap_assign), opid, [&] { return OPF(wrap_assign)(o.h, vs.data(), vs.size(), (enum ppl_enum_Bounded_Integer_Type_Width) w, (enum ppl_enum_Bounded_Integer_Type_Representation) r, (enum ppl_enum_Bounded_Integer_Type_Overflow) ov, &pcs, thr, ind); },
           [&] { o.x.wrap_assign(vset(vs), xw, r ? SIGNED_2_COMPLEMENT : UNSIGNED, ov == 0 ? OVERFLOW_WRAPS : ov == 1 ? OVERFLOW_UNDEFINED : OVERFLOW_IMPOSSIBLE, &cs.x, thr, ind != 0); return 0; });
    cs.h.free_(e);
#else
    c.log << "(no wrap_assign offered)\n";
#endif
  }
};
#undef OPF
#undef OPF2
#undef OPN
#undef OPN2
#undef NEWF
#undef NEWN
#undef NEWCOPYF
#undef NEWCOPYN
#undef NEWCOPYCF
#undef NEWCOPYCN
#undef ASSIGNF
#undef ASSIGNN
#undef C20_BIN
#undef C20_BINB
#undef C20_Q
#undef C20_GET
#endif // C20_DOMAIN_BODY
