// Derived reference-geometry queries and dimension-changing operations on
// ref::Sys, built on ref/refgeom.hh (no PPL code involved).
#ifndef VF_REFX_HH
#define VF_REFX_HH
#include "refgeom.hh"
#include <set>

namespace ref {

inline Sys closure(const Sys& s) { Sys r(s); for (size_t i = 0; i < r.cs.size(); ++i) if (r.cs[i].r == GT) r.cs[i].r = GE; return r; }
inline Sys empty_sys(size_t n) { Sys e(n); e.add(Con(Vec(n, Q(0)), Q(-1), GE)); return e; }
inline Sys meet(const Sys& a, const Sys& b) { Sys r(a); for (size_t i = 0; i < b.cs.size(); ++i) r.add(b.cs[i]); return r; }
inline bool is_universe(const Sys& s) {
  for (size_t i = 0; i < s.cs.size(); ++i) {
    const Con& c = s.cs[i];
    if (c.is_const()) { if (!c.const_true()) return false; continue; }
    return false;     // a non-constant constraint always excludes some point
  }
  return true;
}
inline bool is_closed(const Sys& s) { if (is_empty(s)) return true; return equal(s, closure(s)); }
inline bool disjoint(const Sys& a, const Sys& b) { return is_empty(meet(a, b)); }

// sup of c.x+c0 on non-empty s: 0 unbounded, 1 finite
inline bool inf(const Sys& s, const Vec& c, const Q& c0, Q& val, bool& attained) {
  Vec nc(c.size()); for (size_t i = 0; i < c.size(); ++i) nc[i] = -c[i];
  Q v; if (!sup(s, nc, -c0, v, attained)) return false; val = -v; return true;
}
inline bool is_bounded(const Sys& s) {
  if (is_empty(s)) return true;
  for (size_t j = 0; j < s.n; ++j) { Vec c(s.n, Q(0)); c[j] = 1; Q v; bool a; if (!sup(s, c, Q(0), v, a)) return false; if (!inf(s, c, Q(0), v, a)) return false; }
  return true;
}
// rank of a set of rational vectors
inline size_t rank(std::vector<Vec> rows) {
  size_t r = 0; if (rows.empty()) return 0; size_t n = rows[0].size();
  for (size_t col = 0; col < n && r < rows.size(); ++col) {
    size_t p = r; while (p < rows.size() && rows[p][col] == 0) ++p;
    if (p == rows.size()) continue;
    std::swap(rows[p], rows[r]);
    for (size_t i = r + 1; i < rows.size(); ++i) if (rows[i][col] != 0) { Q f = rows[i][col] / rows[r][col]; for (size_t j = col; j < n; ++j) rows[i][j] -= f * rows[r][j]; }
    ++r;
  }
  return r;
}
// affine dimension of a non-empty set (n - rank of implicit equalities)
inline size_t affine_dim(const Sys& s) {
  Sys c = closure(s);
  std::vector<Vec> eqs;
  for (size_t i = 0; i < c.cs.size(); ++i) {
    if (c.cs[i].is_const()) continue;
    Con e = c.cs[i]; e.r = EQ;
    if (c.cs[i].r == EQ || included_in_con(c, e)) eqs.push_back(c.cs[i].a);
  }
  return s.n - rank(eqs);
}
// recession direction test for non-empty s
inline bool in_recession_cone(const Sys& s, const Vec& d) {
  for (size_t i = 0; i < s.cs.size(); ++i) {
    Q v = 0; for (size_t j = 0; j < s.n; ++j) v += s.cs[i].a[j] * d[j];
    if (s.cs[i].r == EQ ? v != 0 : v < 0) return false;
  }
  return true;
}
// cylindrification on variable j
inline Sys unconstrain(Sys s, size_t j) { if (is_empty(s)) return empty_sys(s.n); eliminate(s, j); simplify(s, true); return s; }
inline bool constrains(const Sys& s, size_t j) { if (is_empty(s)) return true; return !equal(s, unconstrain(s, j)); }

// --- dimension changes
inline Sys embed(const Sys& s, size_t m) { Sys r(s.n + m); for (size_t i = 0; i < s.cs.size(); ++i) { Con c = s.cs[i]; c.a.resize(s.n + m, Q(0)); r.cs.push_back(c); } return r; }
inline Sys project(const Sys& s, size_t m) { Sys r = embed(s, m); for (size_t k = 0; k < m; ++k) { Con c; c.a.assign(s.n + m, Q(0)); c.a[s.n + k] = 1; c.b = 0; c.r = EQ; r.cs.push_back(c); } return r; }
// remove the dimensions in `rm' (existential projection), renumbering the rest
inline Sys remove_dims(Sys s, const std::set<size_t>& rm) {
  bool emp = is_empty(s);
  size_t n2 = s.n - rm.size();
  if (emp) return empty_sys(n2);
  for (std::set<size_t>::const_iterator i = rm.begin(); i != rm.end(); ++i) eliminate(s, *i);
  Sys r(n2);
  for (size_t i = 0; i < s.cs.size(); ++i) { Con c; c.b = s.cs[i].b; c.r = s.cs[i].r; for (size_t j = 0; j < s.n; ++j) if (!rm.count(j)) c.a.push_back(s.cs[i].a[j]); r.cs.push_back(c); }
  simplify(r, true);
  return r;
}
// substitute variables: new system over n2 dims, old var j becomes map[j] (all mapped)
inline Sys rename(const Sys& s, const std::vector<size_t>& map, size_t n2) {
  Sys r(n2);
  for (size_t i = 0; i < s.cs.size(); ++i) { Con c; c.a.assign(n2, Q(0)); c.b = s.cs[i].b; c.r = s.cs[i].r; for (size_t j = 0; j < s.n; ++j) c.a[map[j]] += s.cs[i].a[j]; r.cs.push_back(c); }
  return r;
}
inline Sys concatenate(const Sys& a, const Sys& b) {
  Sys r = embed(a, b.n);
  for (size_t i = 0; i < b.cs.size(); ++i) { Con c; c.a.assign(a.n + b.n, Q(0)); for (size_t j = 0; j < b.n; ++j) c.a[a.n + j] = b.cs[i].a[j]; c.b = b.cs[i].b; c.r = b.cs[i].r; r.cs.push_back(c); }
  return r;
}

// --- finite unions (lists of pieces) ---------------------------------------
typedef std::vector<Sys> Union;
// pieces of  p \ q  (disjoint)
inline Union difference(const Sys& p, const Sys& q) {
  Union out;
  if (is_empty(q)) { out.push_back(p); return out; }
  Sys acc(p);
  for (size_t i = 0; i < q.cs.size(); ++i) {
    int parts = q.cs[i].r == EQ ? 2 : 1;
    for (int w = 0; w < parts; ++w) { Sys t(acc); t.add(negate_part(q.cs[i], w)); if (!is_empty(t)) out.push_back(t); }
    acc.add(q.cs[i]);
  }
  return out;
}
// is  p  covered by the union u ?
inline bool covered(const Sys& p, const Union& u, int depth = 0) {
  if (is_empty(p)) return true;
  if (u.empty()) return false;
  if (depth > 12) throw Budget_Exceeded();
  Union rest = difference(p, u[0]);
  Union tail(u.begin() + 1, u.end());
  for (size_t i = 0; i < rest.size(); ++i) if (!covered(rest[i], tail, depth + 1)) return false;
  return true;
}
inline bool union_included(const Union& a, const Union& b) { for (size_t i = 0; i < a.size(); ++i) if (!covered(a[i], b)) return false; return true; }
inline bool union_equal(const Union& a, const Union& b) { return union_included(a, b) && union_included(b, a); }

// membership of point g (homog=false) / direction g (homog=true) in the closed convex hull of the union of pieces
inline bool in_clconv(const Union& pieces, const Vec& g, bool homog, size_t n) {
  std::vector<Sys> ne; for (size_t i = 0; i < pieces.size(); ++i) if (!is_empty(pieces[i])) ne.push_back(closure(pieces[i]));
  if (ne.empty()) return false;
  size_t k = ne.size(), N = k * (n + 1);
  Sys L(N);
  for (size_t i = 0; i < k; ++i) { size_t off = i * (n + 1);
    for (size_t c = 0; c < ne[i].cs.size(); ++c) { Con r; r.a.assign(N, Q(0)); for (size_t j = 0; j < n; ++j) r.a[off + j] = ne[i].cs[c].a[j]; r.a[off + n] = ne[i].cs[c].b; r.b = 0; r.r = ne[i].cs[c].r; L.add(r); }
    Con lam; lam.a.assign(N, Q(0)); lam.a[off + n] = 1; lam.b = 0; lam.r = GE; L.add(lam); }
  { Con sum; sum.a.assign(N, Q(0)); for (size_t i = 0; i < k; ++i) sum.a[i * (n + 1) + n] = 1; sum.b = homog ? Q(0) : Q(-1); sum.r = EQ; L.add(sum); }
  for (size_t j = 0; j < n; ++j) { Con e; e.a.assign(N, Q(0)); for (size_t i = 0; i < k; ++i) e.a[i * (n + 1) + j] = 1; e.b = -g[j]; e.r = EQ; L.add(e); }
  return !is_empty(L);
}

} // namespace ref
#endif
