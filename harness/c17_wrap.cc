// C17: wrapping to bounded integer types, dropping non-integer points, integer-point existence.
//
// One case = one domain (C_Polyhedron, NNC_Polyhedron, Grid, Rational_Box, BD_Shape<mpq_class>,
// Octagonal_Shape<mpq_class>, Pointset_Powerset<C_Polyhedron>, BD_Shape<int32_t>, Double_Box), dimension 1-3,
// an argument placed around multiples of 2^w, then
//   (1) wrap_assign(vars, w, rep, overflow, guard, threshold, individually)   point-wise soundness:
//       every sample point p of the ARGUMENT with integer values on `vars' has its required image(s) in the result
//         OVERFLOW_WRAPS       p with the coordinates in vars reduced into [0,2^w) / [-2^(w-1),2^(w-1))
//         OVERFLOW_UNDEFINED   p with every out-of-range coordinate of vars replaced by any in-range integer
//                              (corners, 0, the wrapped value, a random one); p itself when it is in range
//         OVERFLOW_IMPOSSIBLE  p itself when in range
//       an image is required only if it satisfies the guard (the guard is conjoined after wrapping).
//       Membership in the result is decided by evaluating the result's constraints()/congruences() exactly on the point.
//       Grids: additionally, for a single wrapped variable, the documented rule (definitions.dox, Grid_Wrapping_Operator) is
//       checked as a sandwich  rule(L /\ {x_j integer}) <= result <= rule(L)  on the exact lattice model rl::Grid.
//       All non-grid domains also: <dom>.wrap.range, the wrapped dimensions of a non-empty result lie in [min, max+1) (precision).
//   (2) drop_some_non_integer_points (all dims / a Variables_Set; each Complexity_Class): result included in the argument
//       (refgeom inclusion / cover), every sample of the argument with integer coordinates on the designated dims kept;
//       grids: exactly  L /\ {x_j integer, j designated}.
//   (3) contains_integer_point: exact when the reference search (branching on integer values, exact LP) decides within
//       its budget on a bounded set; one-sided (found => true) on unbounded sets; grids exact.
// Sample points: integer assignments of the designated coordinates (depth-first: bounds of the coordinate in the current
// slice by exact LP, candidates at the ends, at quadrant borders, in-range corners and random), completed by an LP witness.
// Oracles: gmpxx + ref/refgeom.hh + ref/reflattice*.hh only.
//
// Non-trivial case: at least one required image was checked AND (the argument spans >= 2 quadrants on a wrapped
// dimension, or a guard is given, or the number of quadrant combinations exceeds the threshold).
//
// Known findings (guards: exactly the listed class is skipped when the id is active):
//   KF-C17-1  generic wrap_assign (src/wrap_assign.hh:321-365), collective wrapping, OVERFLOW_WRAPS: the variable at which the
//             running product of quadrant counts first exceeds the complexity threshold is neither translated nor given the
//             full range (it is left unwrapped).  Class: !individually, wraps, some (disjunct of the) argument where, scanning
//             vars in increasing order, a bounded variable not inside quadrant 0 with count <= threshold makes the product
//             exceed the threshold.  Skips <dom>.wrap.contains and <dom>.wrap.range for polyhedra, BD shapes, octagons, powersets.
//   KF-C17-2  Box::wrap_assign with a guard (Box_templates.hh:1844-1876) intersects intervals without resetting the cached
//             emptiness flag: an emptied box stays marked non-empty and fails OK().  Class: box, guard given, overflow wraps or
//             impossible, result empty.  Skips qbox/dbox.wrap.ok.
//   KF-C17-3  Grid::wrap_assign, OVERFLOW_WRAPS (Grid_public.cc:3019-3021): a wrapped variable whose frequency is undefined
//             (a line of the grid moves it) is skipped.  Class: grid, wraps, some wrapped variable moved by a line.
//             Skips grid.wrap.contains and grid.wrap.rule_lower.
//   KF-C17-4  Grid::wrap_assign, wraps/impossible (Grid_public.cc:3071-3080): when the value v_n/v_d that frequency_no_check()
//             returns for the variable has v_d != 1, the variable is set equal to v_n (the numerator), which is not a value
//             of the variable at all.  Class: grid, wrapped variable with non-constant frequency f_n/f_d taking some non-integer
//             value, f_n == 2^w or (impossible and 2 f_n >= 2^w), and the result makes the variable a constant that is not an
//             integer value of the variable in the argument.  Skips grid.wrap.contains, grid.wrap.rule_lower, grid.wrap.rule_upper.
//   KF-C17-5  Grid::wrap_assign, wraps, signed (Grid_public.cc:3040-3048): an out-of-range constant v is replaced by the C remainder
//             v % 2^w (in (-2^w, 2^w)), which is not reduced into [-2^(w-1), 2^(w-1)).  Class: grid, wraps, signed, wrapped
//             variable constant, integer, out of range, with truncated remainder out of range.  Skips the three grid wrap checks.
//   KF-C17-7  Grid::wrap_assign (Grid_public.cc:3071-3080): when f_n == 2^w, or overflow is impossible and 2 f_n >= 2^w, the
//             variable is set equal to the value v_n returned by frequency_no_check(), assumed to be "the value closest to 0"
//             and the unique value in range.  But v_n is the C remainder of the generating point's value (any value in (-f,f)):
//             for a signed type it can be out of range (x = -53 (mod 256) becomes x = 203); with 2^(w-1) <= f_n < 2^w there can be
//             two values in range (one is lost); with f_n > 2^w there can be none (documented result: the empty grid).
//             Class: that branch, integer values, and (number of in-range values != 1, or signed and the result holds an
//             out-of-range constant congruent to the values of the argument).  Skips the three grid wrap checks.
//   KF-C17-8  (precision, documentation mismatch) Grid::wrap_assign, undefined (Grid_public.cc:3107-3112): when the variable may
//             take non-integer values the grid is `unconstrain(x); x = 0 (mod 1)' instead of the documented `add the parameter
//             e_x': relations with the other variables are lost.  Class: grid, undefined, wrapped variable moved by a line or with
//             a non-integer value / frequency.  Skips grid.wrap.rule_upper only.
//   KF-C17-9  (precision, documentation mismatch) Grid::wrap_assign, wraps (Grid_public.cc:3066-3070): the documented test "the grid
//             satisfies x = a (mod 2^w)" is implemented as f_n == 2^w: with a frequency k*2^w, k >= 2, the parameter 2^w e_x is
//             added instead of setting x to the constant a mod 2^w.  Class: grid, wraps, frequency an integer multiple >= 2 of 2^w.
//             Skips grid.wrap.rule_upper only.
//   KF-C17-10 (precision) Box::wrap_assign with a guard, undefined (Box_templates.hh:1866-1870): an interval not inside the range is
//             assigned UNIVERSE (unbounded), whereas without a guard it is assigned the range of the type: giving a guard makes
//             the result less precise and leaves the wrapped dimension outside the type.  Class: box, guard, undefined, some
//             wrapped interval not inside [min, max+1).  Skips qbox/dbox.wrap.range.
//   KF-C17-11 Grid::wrap_assign, wraps, two or more variables (Grid_public.cc:3019, 3064-3070): frequencies are read from a copy of the
//             original grid while *this is modified; when the integrality congruence of a later variable empties *this, the
//             following add_grid_generator(parameter) throws std::invalid_argument ("*this is an empty grid and g is not a point").
//             Class: grid, wraps, |vars| >= 2, argument non-empty but without points integer on all wrapped dims, exception thrown.
//             Skips the wrap checks of the case (check id grid.wrap.throws).
//   KF-C17-6  Polyhedron::contains_integer_point (Polyhedron_public.cc:664-674): a strict inequality g*(a.x) + b > 0 whose
//             homogeneous gcd g does not divide b is tightened with a truncating division (b/g rounded towards zero instead of
//             down): for b < 0 an integer point is claimed that does not satisfy the constraint.
//             Class: NNC polyhedron whose constraints() hold such a strict inequality with b < 0.  Skips nnc.cip.false.
#include "poly_common.hh"
#include "reflattice_x.hh"
#include "interfaces/interfaced_boxes.hh"

const vf::Info vf_info = { "C17", "c17_wrap", 4.0 };

using namespace vf;
typedef mpz_class Z;

namespace {

Z fdiv(const Z& a, const Z& b) { Z r; mpz_fdiv_q(r.get_mpz_t(), a.get_mpz_t(), b.get_mpz_t()); return r; }
Z floor_q(const Q& q) { Z r; mpz_fdiv_q(r.get_mpz_t(), q.get_num_mpz_t(), q.get_den_mpz_t()); return r; }
Z ceil_q(const Q& q) { Z r; mpz_cdiv_q(r.get_mpz_t(), q.get_num_mpz_t(), q.get_den_mpz_t()); return r; }
bool is_int(const Q& q) { return q.get_den() == 1; }
std::string show_pt(const Vec& p) { std::ostringstream o; o << "("; for (size_t i = 0; i < p.size(); ++i) o << (i ? ", " : "") << p[i]; o << ")"; return o.str(); }
template <typename T> std::string pstr(const T& x) { std::ostringstream o; o << x; return o.str(); }

// ------------------------------------------------------------------ specification of the wrap call
struct Spec {
  size_t n; unsigned wb; Bounded_Integer_Type_Width w; Z M, mn, mx; bool sgn; int ov;       // ov: 0 wraps, 1 undefined, 2 impossible
  std::vector<size_t> V; bool has_guard; std::vector<RCon> guard; unsigned thr; bool indiv;
  Z wrap(const Z& x) const { return x - M * fdiv(x - mn, M); }
  bool in_range(const Z& x) const { return x >= mn && x <= mx; }
  bool guard_ok(const Vec& p) const { if (!has_guard) return true; for (size_t i = 0; i < guard.size(); ++i) if (!to_refcon(guard[i]).sat(p)) return false; return true; }
  bool wrapped(size_t j) const { for (size_t i = 0; i < V.size(); ++i) if (V[i] == j) return true; return false; }
  Variables_Set vs() const { Variables_Set s; for (size_t i = 0; i < V.size(); ++i) s.insert(Variable(V[i])); return s; }
  Constraint_System guard_cs() const { Constraint_System cs; for (size_t i = 0; i < guard.size(); ++i) cs.insert(to_ppl(guard[i])); return cs; }
  Bounded_Integer_Type_Representation rep() const { return sgn ? SIGNED_2_COMPLEMENT : UNSIGNED; }
  Bounded_Integer_Type_Overflow ovf() const { return ov == 0 ? OVERFLOW_WRAPS : ov == 1 ? OVERFLOW_UNDEFINED : OVERFLOW_IMPOSSIBLE; }
  const char* ov_name() const { return ov == 0 ? "wraps" : ov == 1 ? "undefined" : "impossible"; }
};

// an offset inside a quadrant (0 <= off < M), biased to the borders
Z gen_off(Tape& t, const Z& M) {
  switch (t.weighted({20, 10, 10, 10, 10, 10, 15, 15})) {
  case 0: return 0;
  case 1: return 1;
  case 2: return M - 1;
  case 3: return M / 2;
  case 4: return M / 2 - 1;
  case 5: return M - 2;
  case 6: return Z(t.range(0, 200)) % M;
  default: { Z r = M - 1 - t.range(0, 200); return r < 0 ? Z(0) : r; }
  }
}

Spec gen_spec(Ctx& c, size_t n, int max_w_index, bool strict_ok) {
  Tape& t = c.t; Spec s; s.n = n;
  int wi = t.weighted({45, 35, 12, 8}); if (wi > max_w_index) wi = max_w_index;
  static const unsigned WB[] = { 8, 16, 32, 64 }; static const Bounded_Integer_Type_Width WW[] = { BITS_8, BITS_16, BITS_32, BITS_64 };
  s.wb = WB[wi]; s.w = WW[wi]; s.M = 1; s.M <<= s.wb;
  s.sgn = t.chance(50); s.mn = s.sgn ? Z(-(s.M / 2)) : Z(0); s.mx = s.mn + s.M - 1;
  s.ov = t.weighted({50, 25, 25});
  // wrapped variables: a non-empty subset
  { long mask = t.range(1, (1L << n) - 1); for (size_t j = 0; j < n; ++j) if (mask & (1L << j)) s.V.push_back(j); }
  s.thr = (unsigned) (t.chance(50) ? t.range(0, 6) : t.range(0, 20)); s.indiv = !t.chance(50);
  s.has_guard = t.chance(35);
  if (s.has_guard) {
    int ng = (int) t.range(1, 2);
    for (int g = 0; g < ng; ++g) {
      RCon rc; rc.e = LE(n); rc.kind = t.weighted({10, 80, strict_ok ? 10 : 0}); if (rc.kind == 1) {} else if (rc.kind == 0) {}
      int k = rc.kind == 0 ? 0 : rc.kind;     // 0 '=', 1 '>=', 2 '>'
      rc.kind = k;
      if (s.V.size() >= 2 && t.chance(40)) {
        size_t u = s.V[t.range(0, (long) s.V.size() - 1)], v = s.V[t.range(0, (long) s.V.size() - 1)];
        static const int CA[] = { 1, -1, 2, 1 }, CB[] = { -1, 1, -1, 1 };
        int q = (int) t.range(0, 3);
        if (u == v) { rc.e.a[u] = CA[q]; } else { rc.e.a[u] = CA[q]; rc.e.a[v] = CB[q]; }
        switch (t.weighted({40, 20, 20, 20})) { case 0: rc.e.b = 0; break; case 1: rc.e.b = t.range(-50, 50); break; case 2: rc.e.b = s.M / 2; break; default: rc.e.b = -(s.M / 4); }
      }
      else {
        size_t v = s.V[t.range(0, (long) s.V.size() - 1)];
        Z b = s.mn + gen_off(t, s.M);
        if (t.chance(50)) { rc.e.a[v] = 1; rc.e.b = -b; } else { rc.e.a[v] = -1; rc.e.b = b; }
      }
      s.guard.push_back(rc);
    }
  }
  return s;
}

void log_spec(Ctx& c, const Spec& s) {
  c.log << "wrap_assign(vars={"; for (size_t i = 0; i < s.V.size(); ++i) c.log << (i ? "," : "") << "x" << s.V[i];
  c.log << "}, BITS_" << s.wb << ", " << (s.sgn ? "SIGNED_2_COMPLEMENT" : "UNSIGNED") << ", OVERFLOW_" << s.ov_name() << ", guard=";
  if (!s.has_guard) c.log << "null"; else { c.log << "{"; for (size_t i = 0; i < s.guard.size(); ++i) c.log << (i ? ", " : "") << str(s.guard[i]); c.log << "}"; }
  c.log << ", threshold=" << s.thr << ", " << (s.indiv ? "individually" : "collectively") << ")\n";
}

// ------------------------------------------------------------------ argument constraints (non-grid domains)
// style: 0 general coefficients, 1 bounded differences, 2 octagonal, 3 intervals only
std::vector<RCon> gen_arg(Ctx& c, const Spec& s, int style, bool strict_ok) {
  Tape& t = c.t; const size_t n = s.n; std::vector<RCon> cons; std::vector<Z> centre(n);
  for (size_t j = 0; j < n; ++j) {
    Z lo = s.M * t.range(-2, 2) + s.mn + gen_off(t, s.M);
    Z len;
    switch (t.weighted({10, 20, 8, 8, 8, 26, 10, 10})) {
    case 0: len = 0; break;
    case 1: len = t.range(1, 9); break;
    case 2: len = s.M - 1; break;
    case 3: len = s.M; break;
    case 4: len = s.M + 1; break;
    case 5: len = s.M * t.range(1, 4) + t.range(-3, 12); break;
    case 6: len = gen_off(t, s.M); break;
    default: len = s.M / 2 + t.range(-2, 2); break;
    }
    if (len < 0) len = 0;
    int shape = t.weighted({70, 9, 9, 12});       // both bounds, lower only, upper only, none
    long den = t.weighted({75, 15, 10}) + 1;
    bool tiny = t.chance(12);                      // a thin slice with fractional ends (integer-point existence is non-trivial)
    if (tiny) { len = t.range(0, 1); den = t.range(2, 4); shape = 0; }
    centre[j] = lo + len / 2;
    if (shape == 0 || shape == 1) { RCon rc; rc.e = LE(n); rc.e.a[j] = den; rc.e.b = -(lo * den + t.range(0, den - 1)); rc.kind = (strict_ok && t.chance(tiny ? 45 : 15)) ? 2 : 1; cons.push_back(rc); }
    if (shape == 0 || shape == 2) { RCon rc; rc.e = LE(n); rc.e.a[j] = -den; rc.e.b = (lo + len) * den + t.range(0, den - 1); rc.kind = (strict_ok && t.chance(15)) ? 2 : 1; cons.push_back(rc); }
  }
  if (n >= 2 && style != 3) {
    int k = t.weighted({35, 35, 20, 10});
    for (int i = 0; i < k; ++i) {
      RCon rc; rc.e = LE(n);
      size_t u = (size_t) t.range(0, (long) n - 1), v = (size_t) t.range(0, (long) n - 2); if (v >= u) ++v;
      bool simple = style != 0 || t.chance(55);
      if (simple) { rc.e.a[u] = 1; rc.e.a[v] = (style == 1 || t.chance(60)) ? -1 : 1; if (t.chance(50)) { rc.e.a[u] = -rc.e.a[u]; rc.e.a[v] = -rc.e.a[v]; } }
      else { rc.e.a[u] = t.range(-3, 3); rc.e.a[v] = t.range(-3, 3); if (n == 3 && t.chance(25)) rc.e.a[3 - u - v] = t.range(-2, 2); }
      Z val = 0; for (size_t j = 0; j < n; ++j) val += rc.e.a[j] * centre[j];
      rc.kind = t.weighted({18, 70, strict_ok ? 12 : 0});
      Z slack;
      switch (t.weighted({30, 30, 15, 15, 10})) { case 0: slack = 0; break; case 1: slack = t.range(1, 20); break; case 2: slack = s.M / 2; break; case 3: slack = s.M; break; default: slack = s.M * 2 + t.range(0, 5); }
      if (rc.kind == 0) slack = 0; if (rc.kind == 2 && slack == 0) slack = 1;
      rc.e.b = -val + slack;
      if (!rc.e.all_zero()) cons.push_back(rc);
    }
  }
  return cons;
}

// ------------------------------------------------------------------ models of PPL objects (exact evaluation of constraints())
template <typename D> std::vector<Sys> model_of(const D& d, size_t n) { std::vector<Sys> v; v.push_back(to_ref(d.constraints(), n)); return v; }
std::vector<Sys> model_of(const Pointset_Powerset<C_Polyhedron>& d, size_t n) {
  std::vector<Sys> v; for (Pointset_Powerset<C_Polyhedron>::const_iterator i = d.begin(); i != d.end(); ++i) v.push_back(to_ref(i->pointset().constraints(), n)); return v;
}
bool member(const std::vector<Sys>& m, const Vec& p) { for (size_t i = 0; i < m.size(); ++i) if (m[i].sat(p)) return true; return false; }
std::string show_model(const std::vector<Sys>& m) { std::string r; for (size_t i = 0; i < m.size(); ++i) r += (i ? " U " : "") + ref::show(m[i]); if (m.empty()) r = "{no disjunct}"; return r; }

// ------------------------------------------------------------------ sampling points with integer coordinates on given dims
struct Sampler {
  const Spec& s; Tape& t; std::vector<Vec> out; size_t max_out;
  Sampler(const Spec& s_, Tape& t_) : s(s_), t(t_), max_out(90) {}
  Z rnd_between(const Z& a, const Z& b) {
    Z span = b - a; if (span <= 0) return a;
    if (span < 1000000) return a + t.range(0, span.get_si());
    Z r = span * t.range(0, (1L << 20)); r >>= 20; return a + r;
  }
  void run(const Sys& piece, const std::vector<size_t>& dims) { rec(piece, dims, 0); }
  void rec(const Sys& cur, const std::vector<size_t>& dims, size_t k) {
    if (out.size() >= max_out) return;
    const size_t n = s.n;
    if (k == dims.size()) {
      Vec w; if (ref::is_empty(cur, &w)) return; out.push_back(w);
      // a second completion: push one of the free coordinates to an attained extremum or to the middle of its range
      std::vector<size_t> fr; for (size_t j = 0; j < n; ++j) { bool d = false; for (size_t i = 0; i < dims.size(); ++i) if (dims[i] == j) d = true; if (!d) fr.push_back(j); }
      if (!fr.empty() && t.chance(50)) {
        size_t u = fr[t.range(0, (long) fr.size() - 1)]; Vec e(n, Q(0)); e[u] = 1; Q lo, hi; bool al = false, ah = false;
        bool bl = ref::inf(cur, e, Q(0), lo, al), bh = ref::sup(cur, e, Q(0), hi, ah);
        Q val; bool have = false; int how = (int) t.range(0, 2);
        if (how == 0 && bh && ah) { val = hi; have = true; } else if (how == 1 && bl && al) { val = lo; have = true; }
        else if (bl && bh) { val = (lo + hi) / 2; have = true; } else if (bl) { val = lo + Q(7, 2); have = true; } else if (bh) { val = hi - Q(7, 2); have = true; }
        if (have) { Sys c2(cur); Vec a(n, Q(0)); a[u] = 1; c2.add(Con(a, -val, ref::EQ)); Vec w2; if (!ref::is_empty(c2, &w2)) out.push_back(w2); }
      }
      return;
    }
    if (ref::is_empty(cur)) return;
    size_t v = dims[k]; Vec e(n, Q(0)); e[v] = 1; Q lo, hi; bool al, ah;
    bool bl = ref::inf(cur, e, Q(0), lo, al), bh = ref::sup(cur, e, Q(0), hi, ah);
    Z a, b;
    if (bl) a = ceil_q(lo); if (bh) b = floor_q(hi);
    if (!bl && !bh) { a = s.mn - 2 * s.M - 2; b = s.mx + 2 * s.M + 2; }
    else if (!bl) { a = (b < s.mn ? b : s.mn) - 2 * s.M - 2; }
    else if (!bh) { b = (a > s.mx ? a : s.mx) + 2 * s.M + 2; }
    if (a > b) return;
    std::set<Z> cand;
    auto add = [&](const Z& z) { if (z >= a && z <= b) cand.insert(z); };
    add(a); add(a + 1); add(b); add(b - 1); add(s.mn); add(s.mx); add(0); add(-1); add(s.mn - 1); add(s.mx + 1);
    Z qa = fdiv(a - s.mn, s.M), qb = fdiv(b - s.mn, s.M);
    Z qs[] = { qa, qa + 1, qa + 2, qb - 1, qb };
    for (const Z& q : qs) { if (q < qa || q > qb) continue; Z base = q * s.M + s.mn; add(base); add(base - 1); add(base + s.M / 2); add(base + 5); add(base + s.M - 1); }
    for (int i = 0; i < 3; ++i) add(rnd_between(a, b));
    static const size_t CAP[4][3] = { {0, 0, 0}, {16, 0, 0}, {8, 5, 0}, {6, 3, 3} };
    size_t cap = CAP[dims.size() > 3 ? 3 : dims.size()][k > 2 ? 2 : k];
    std::vector<Z> cv(cand.begin(), cand.end()), chosen;
    if (cv.size() <= cap) chosen = cv;
    else for (size_t i = 0; i < cap; ++i) { size_t ix = (size_t) t.range(0, (long) cv.size() - 1); chosen.push_back(cv[ix]); cv.erase(cv.begin() + ix); }
    for (size_t i = 0; i < chosen.size(); ++i) { Sys c2(cur); Vec av(n, Q(0)); av[v] = 1; c2.add(Con(av, Q(-chosen[i]), ref::EQ)); rec(c2, dims, k + 1); }
  }
};

// required images of an integer-on-V sample p
void images(const Spec& s, Tape& t, const Vec& p, std::vector<Vec>& req) {
  if (s.ov == 0) { Vec q(p); for (size_t i = 0; i < s.V.size(); ++i) q[s.V[i]] = Q(s.wrap(p[s.V[i]].get_num())); req.push_back(q); return; }
  std::vector<size_t> outd; for (size_t i = 0; i < s.V.size(); ++i) if (!s.in_range(p[s.V[i]].get_num())) outd.push_back(s.V[i]);
  if (outd.empty()) { req.push_back(p); return; }
  if (s.ov == 2) return;
  auto choice = [&](int c, size_t v) -> Z { switch (c) { case 0: return s.mn; case 1: return s.mx; case 2: return s.wrap(p[v].get_num()); case 3: return 0; case 4: return s.mn + 1;
    default: { Z span = s.M - 1; if (span < 1000000) return s.mn + t.range(0, span.get_si()); Z r = span * t.range(0, 1L << 20); r >>= 20; return s.mn + r; } } };
  for (int c = 0; c < 6; ++c) { Vec q(p); for (size_t i = 0; i < outd.size(); ++i) q[outd[i]] = Q(choice(c, outd[i])); req.push_back(q); }
  if (outd.size() > 1) for (int m = 0; m < 3; ++m) { Vec q(p); for (size_t i = 0; i < outd.size(); ++i) q[outd[i]] = Q(choice((int) t.range(0, 5), outd[i])); req.push_back(q); }
}

// quadrant statistics of the argument on the wrapped dims: returns the product of quadrant counts (capped), sets `unbounded'
struct QuadInfo { bool unbounded = false; bool empty = true; long max_span = 0; Z combos = 1; };
QuadInfo quad_info(const Spec& s, const std::vector<Sys>& model) {
  QuadInfo qi;
  for (size_t pi = 0; pi < model.size(); ++pi) {
    if (ref::is_empty(model[pi])) continue; qi.empty = false; Z comb = 1;
    for (size_t i = 0; i < s.V.size(); ++i) {
      Vec e(s.n, Q(0)); e[s.V[i]] = 1; Q lo, hi; bool al, ah;
      if (!ref::inf(model[pi], e, Q(0), lo, al) || !ref::sup(model[pi], e, Q(0), hi, ah)) { qi.unbounded = true; continue; }
      Z span = fdiv(floor_q(hi) - s.mn, s.M) - fdiv(floor_q(lo) - s.mn, s.M) + 1;
      if (span > qi.max_span) qi.max_span = span.get_si(); comb *= span;
    }
    if (comb > qi.combos) qi.combos = comb;
  }
  return qi;
}
void tag_common(Ctx& c, const std::string& dom, const Spec& s, const QuadInfo& qi) {
  c.tag("dom " + dom); c.tag(std::string("rep ") + (s.sgn ? "signed" : "unsigned")); c.tag(std::string("overflow ") + s.ov_name());
  c.tag(std::string("mode ") + (s.indiv ? "individual" : "collective")); c.tag("width " + std::to_string(s.wb));
  c.tag(std::string("quadrants ") + (qi.empty ? "empty" : qi.unbounded ? "unbounded" : qi.max_span <= 1 ? "1" : qi.max_span == 2 ? "2" : qi.max_span <= 5 ? "3-5" : ">5"));
  if (s.has_guard) c.tag("guard");
  if (!qi.empty && qi.combos > s.thr) c.tag("threshold exceeded");
}

// ------------------------------------------------------------------ integer point search (exact LP + branching on integer values)
// returns 1 found, 0 proved none, -1 unknown (budget / unbounded window)
int find_int(const Sys& cur, size_t n, size_t k, long& budget, Vec* wit) {
  if (--budget < 0) return -1;
  Vec w; if (ref::is_empty(cur, &w)) return 0;
  if (k == n) { if (wit) *wit = w; return 1; }
  { bool all = true; for (size_t j = 0; j < n; ++j) if (!is_int(w[j])) all = false; if (all) { if (wit) *wit = w; return 1; } }
  Vec e(n, Q(0)); e[k] = 1; Q lo, hi; bool al, ah;
  bool bl = ref::inf(cur, e, Q(0), lo, al), bh = ref::sup(cur, e, Q(0), hi, ah);
  Z a, b; bool exact = bl && bh;
  if (bl) a = ceil_q(lo); if (bh) b = floor_q(hi);
  if (!bl && !bh) { a = -6; b = 6; } else if (!bl) a = b - 12; else if (!bh) b = a + 12;
  bool unknown = !exact;
  for (Z z = a; z <= b; ++z) {
    Sys c2(cur); Vec av(n, Q(0)); av[k] = 1; c2.add(Con(av, Q(-z), ref::EQ));
    int r = find_int(c2, n, k + 1, budget, wit);
    if (r == 1) return 1; if (r < 0) unknown = true;
    if (budget < 0) return -1;
  }
  return unknown ? -1 : 0;
}

// contains_integer_point() of polyhedra runs MIP branch-and-bound whose depth is not bounded by anything reasonable (see the report:
// a 3-dimensional slab 2*x0 - 2*x1 + x2 = c over a 2^17 wide box recurses > 10^5 deep): run it under a deterministic weight limit.
struct WeightLimit {};
void too_fat() { throw WeightLimit(); }
typedef Threshold_Watcher<Weightwatch_Traits> Weightwatch;
template <typename D> int guarded_cip(const D& d) {          // 0 false, 1 true, -1 abandoned
  try { Weightwatch ww(30000000ULL, too_fat); return d.contains_integer_point() ? 1 : 0; }
  catch (WeightLimit&) { return -1; }
}

const char* cc_name(Complexity_Class cc) { return cc == POLYNOMIAL_COMPLEXITY ? "POLYNOMIAL" : cc == SIMPLEX_COMPLEXITY ? "SIMPLEX" : "ANY"; }

// ------------------------------------------------------------------ known findings
// (see the header comment)

// ------------------------------------------------------------------ generic (constraint-based) domains
template <typename D> struct Build {
  static D make(Ctx&, const Spec& s, const std::vector<std::vector<RCon> >& pieces) {
    D d(s.n); for (size_t i = 0; i < pieces[0].size(); ++i) d.refine_with_constraint(to_ppl(pieces[0][i])); return d;
  }
};
template <> struct Build<Pointset_Powerset<C_Polyhedron> > {
  static Pointset_Powerset<C_Polyhedron> make(Ctx&, const Spec& s, const std::vector<std::vector<RCon> >& pieces) {
    Pointset_Powerset<C_Polyhedron> ps(s.n, EMPTY);
    for (size_t k = 0; k < pieces.size(); ++k) { C_Polyhedron ph(s.n); for (size_t i = 0; i < pieces[k].size(); ++i) ph.refine_with_constraint(to_ppl(pieces[k][i])); if (!ph.is_empty()) ps.add_disjunct(ph); }
    return ps;
  }
};

// KF-C17-1 class (see the header)
bool kf1_class(const Spec& s, const std::vector<Sys>& model) {
  if (s.indiv || s.ov != 0) return false;
  for (size_t pi = 0; pi < model.size(); ++pi) {
    if (ref::is_empty(model[pi])) continue;
    Z prod = 1;
    for (size_t i = 0; i < s.V.size(); ++i) {
      Vec e(s.n, Q(0)); e[s.V[i]] = 1; Q lo, hi; bool al, ah;
      if (!ref::inf(model[pi], e, Q(0), lo, al) || !ref::sup(model[pi], e, Q(0), hi, ah)) continue;
      Z fq = fdiv(floor_q(lo) - s.mn, s.M), lq = fdiv(floor_q(hi) - s.mn, s.M);
      if (fq == 0 && lq == 0) continue;
      Z ext = lq - fq + 1; if (ext > s.thr) continue;
      prod *= ext; if (prod > s.thr) return true;
    }
  }
  return false;
}
// KF-C17-6 class
template <typename D> bool kf6_class(const D&) { return false; }
bool kf6_class(const NNC_Polyhedron& ph) {
  Constraint_System cs = ph.constraints();
  for (Constraint_System::const_iterator i = cs.begin(); i != cs.end(); ++i) {
    if (!i->is_strict_inequality()) continue;
    Z g = 0; for (size_t j = 0; j < i->space_dimension(); ++j) { Z a = i->coefficient(Variable(j)); mpz_gcd(g.get_mpz_t(), g.get_mpz_t(), a.get_mpz_t()); }
    Z b = i->inhomogeneous_term();
    if (g > 1 && b < 0 && !mpz_divisible_p(b.get_mpz_t(), g.get_mpz_t())) return true;
  }
  return false;
}

struct Flags { int style; bool strict_ok, readback; int max_w_index; bool powerset, is_box; };

template <typename D>
void run_generic(Ctx& c, const std::string& dom, const Flags& F) {
  const int style = F.style; const bool strict_ok = F.strict_ok, readback = F.readback, powerset = F.powerset; const int max_w_index = F.max_w_index;
  Tape& t = c.t;
  const size_t n = (size_t) t.range(1, 3);
  Spec s = gen_spec(c, n, max_w_index, strict_ok);
  const bool drop_all = t.chance(50); const long drop_cc = t.range(0, 2), drop_mask = t.range(0, (1L << n) - 1);    // drawn early: the samplers may exhaust the tape
  std::vector<std::vector<RCon> > pieces; size_t np = powerset ? (size_t) t.range(1, 3) : 1;
  for (size_t k = 0; k < np; ++k) pieces.push_back(gen_arg(c, s, style, strict_ok));
  c.log << dom << " dim " << n << "\n";
  for (size_t k = 0; k < np; ++k) { c.log << "  argument" << (np > 1 ? " disjunct" : "") << ": {"; for (size_t i = 0; i < pieces[k].size(); ++i) c.log << (i ? ", " : "") << str(pieces[k][i]); c.log << "}\n"; }
  const D arg = Build<D>::make(c, s, pieces);
  std::vector<Sys> model;
  if (readback) model = model_of(arg, n);
  else for (size_t k = 0; k < np; ++k) { Sys m(n); for (size_t i = 0; i < pieces[k].size(); ++i) m.add(to_refcon(pieces[k][i])); model.push_back(m); }
  if (readback) c.log << "  argument as stored: " << show_model(model) << "\n";
  QuadInfo qi = quad_info(s, model);
  tag_common(c, dom, s, qi);
  long checked = 0;

  // ---- (1) wrap_assign
  {
    log_spec(c, s);
    D d(arg); Constraint_System gcs = s.guard_cs(); Variables_Set vs = s.vs();
    d.wrap_assign(vs, s.w, s.rep(), s.ovf(), s.has_guard ? &gcs : 0, s.thr, s.indiv);
    std::vector<Sys> res = model_of(d, n);
    c.log << "  result: " << show_model(res) << "\n";
    if (F.is_box && s.has_guard && s.ov != 1 && ref::is_empty(res[0]) && vf::kf("KF-C17-2")) c.excluded("KF-C17-2");
    else c.check(dom + ".wrap.ok", d.OK(), "wrap_assign: result fails OK()");
    Sampler sm(s, t);
    bool skip_contains = false;
    if (!F.is_box && kf1_class(s, model)) { c.tag("class KF-C17-1"); if (vf::kf("KF-C17-1")) { c.excluded("KF-C17-1"); skip_contains = true; } }
    if (!skip_contains) for (size_t k = 0; k < model.size(); ++k) sm.run(model[k], s.V);
    for (size_t i = 0; i < sm.out.size(); ++i) {
      const Vec& p = sm.out[i];
      c.check("oracle.sample", member(model, p), [&] { return "harness bug: sample " + show_pt(p) + " is not in the argument model " + show_model(model); });
      std::vector<Vec> req; images(s, t, p, req);
      for (size_t r = 0; r < req.size(); ++r) {
        if (!s.guard_ok(req[r])) continue;
        ++checked;
        c.check(dom + ".wrap.contains", member(res, req[r]), [&] {
          return "wrap_assign lost a point: argument point " + show_pt(p) + " requires " + show_pt(req[r]) + " in the result " + show_model(res) + "; argument " + show_model(model); });
      }
    }
    // the wrapped dimensions of the result lie in the range of the type: mn <= x < mx + 1
    bool skip_range = skip_contains;
    if (F.is_box && s.has_guard && s.ov == 1) {       // KF-C17-10 class: some wrapped interval not inside [mn, mx+1)
      bool cls = false;
      if (!ref::is_empty(model[0])) for (size_t i = 0; i < s.V.size(); ++i) { Vec a(n, Q(0)); a[s.V[i]] = 1; Vec na(n, Q(0)); na[s.V[i]] = -1;
        if (!ref::included_in_con(model[0], Con(a, Q(-s.mn), ref::GE)) || !ref::included_in_con(model[0], Con(na, Q(s.mx + 1), ref::GT))) cls = true; }
      if (cls) { c.tag("class KF-C17-10"); if (vf::kf("KF-C17-10")) { c.excluded("KF-C17-10"); skip_range = true; } }
    }
    if (!skip_range) for (size_t k = 0; k < res.size(); ++k) {
      if (ref::is_empty(res[k])) continue;
      for (size_t i = 0; i < s.V.size(); ++i) { Vec a(n, Q(0)); a[s.V[i]] = 1; Vec na(n, Q(0)); na[s.V[i]] = -1;
        bool ok = ref::included_in_con(res[k], Con(a, Q(-s.mn), ref::GE)) && ref::included_in_con(res[k], Con(na, Q(s.mx + 1), ref::GT));
        // precision only: C17 demands containment of the wrapped points, not that the result stays within the range of the type
        if (!ok) c.tag("precision: " + dom + " result exceeds the range of the type");
      }
    }
  }
  if (checked > 0 && (qi.unbounded || qi.max_span >= 2 || s.has_guard || qi.combos > s.thr)) c.nt();

  // ---- (2) drop_some_non_integer_points
  {
    D d(arg); bool all = drop_all; std::vector<size_t> dims;
    static const Complexity_Class CC[] = { ANY_COMPLEXITY, SIMPLEX_COMPLEXITY, POLYNOMIAL_COMPLEXITY };
    Complexity_Class cc = CC[drop_cc];
    if (all) { for (size_t j = 0; j < n; ++j) dims.push_back(j); d.drop_some_non_integer_points(cc); }
    else { long mask = drop_mask; Variables_Set vs; for (size_t j = 0; j < n; ++j) if (mask & (1L << j)) { dims.push_back(j); vs.insert(Variable(j)); } d.drop_some_non_integer_points(vs, cc); }
    c.log << "drop_some_non_integer_points(" << (all ? "all" : "{"); if (!all) { for (size_t i = 0; i < dims.size(); ++i) c.log << (i ? "," : "") << "x" << dims[i]; c.log << "}"; } c.log << ", " << cc_name(cc) << ")\n";
    c.check(dom + ".drop.ok", d.OK(), "drop_some_non_integer_points: result fails OK()");
    std::vector<Sys> res = model_of(d, n);
    c.log << "  result: " << show_model(res) << "\n";
    bool incl = true; size_t bad = 0;
    for (size_t k = 0; k < res.size() && incl; ++k) { bool ok = model.size() == 1 ? (ref::is_empty(res[k]) || ref::included(res[k], model[0])) : ref::covered(res[k], model); if (!ok) { incl = false; bad = k; } }
    c.check(dom + ".drop.subset", incl, [&] { return "drop_some_non_integer_points: result piece " + ref::show(res[bad]) + " is not included in the argument " + show_model(model); });
    Sampler sm(s, t); sm.max_out = 50;
    for (size_t k = 0; k < model.size(); ++k) sm.run(model[k], dims);
    for (size_t i = 0; i < sm.out.size(); ++i) {
      const Vec& p = sm.out[i];
      c.check("oracle.sample", member(model, p), [&] { return "harness bug: sample " + show_pt(p) + " is not in the argument model " + show_model(model); });
      c.check(dom + ".drop.keeps", member(res, p), [&] { return "drop_some_non_integer_points lost the point " + show_pt(p) + " (integer on the designated dims) of " + show_model(model) + "; result " + show_model(res); });
    }
    c.tag(std::string("drop ") + (all ? "all" : "vars") + " " + cc_name(cc));
  }

  // ---- (3) contains_integer_point
  {
    int gcip = guarded_cip(arg); bool got = gcip == 1;
    int verdict = 0; Vec wit; long budget = 250;
    for (size_t k = 0; k < model.size(); ++k) { int r = find_int(model[k], n, 0, budget, &wit); if (r == 1) { verdict = 1; break; } if (r < 0) verdict = -1; }
    c.log << "contains_integer_point() = " << (gcip < 0 ? "(abandoned: weight limit)" : got ? "true" : "false") << ", reference: " << (verdict == 1 ? "yes " + show_pt(wit) : verdict == 0 ? "none" : "undecided") << "\n";
    if (gcip < 0) { c.tag("cip abandoned (weight limit) " + dom); verdict = -1; }
    if (verdict == 1) c.check(dom + ".cip.true", got, [&] { return "contains_integer_point() is false but " + show_pt(wit) + " is an integer point of " + show_model(model); });
    if (verdict == 0 && got && kf6_class(arg) && vf::kf("KF-C17-6")) c.excluded("KF-C17-6");
    else if (verdict == 0) c.check(dom + ".cip.false", !got, [&] { return "contains_integer_point() is true but the set has no integer point: " + show_model(model); });
    c.tag(verdict == 1 ? "cip yes" : verdict == 0 ? "cip none" : "cip undecided");
  }
}

// ------------------------------------------------------------------ grids
struct GCong { LE e; Z m; };          // e = 0 (mod m); m == 0: equality

rl::Grid grid_from_ppl(const Grid& g, size_t n) {
  rl::Grid r(n); Congruence_System cgs = g.congruences();
  for (Congruence_System::const_iterator i = cgs.begin(); i != cgs.end(); ++i) {
    rl::Vec a(n, rl::Q(0)); for (size_t j = 0; j < i->space_dimension() && j < n; ++j) a[j] = rl::Q(Z(i->coefficient(Variable(j))));
    r.add_congruence(a, rl::Q(-Z(i->inhomogeneous_term())), rl::Q(Z(i->modulus())));
  }
  return r;
}
bool sat_cgs(const Congruence_System& cgs, const Vec& p) {
  for (Congruence_System::const_iterator i = cgs.begin(); i != cgs.end(); ++i) {
    Q v = Q(Z(i->inhomogeneous_term())); for (size_t j = 0; j < i->space_dimension() && j < p.size(); ++j) v += Q(Z(i->coefficient(Variable(j)))) * p[j];
    Z m = i->modulus();
    if (m == 0) { if (v != 0) return false; } else { Q r = v / Q(m); if (!is_int(r)) return false; }
  }
  return true;
}
// the documented rule for one variable j (definitions.dox, Grid_Wrapping_Operator)
// lenient: "x_j is set equal to a" read as `forget x_j, then x_j = a' also when overflow is impossible (otherwise: intersection)
rl::Grid grid_rule(const rl::Grid& L, const Spec& s, size_t j, bool lenient) {
  if (L.empty) return L;
  const size_t n = L.n; rl::Vec e(n, rl::Q(0)); e[j] = 1; rl::Q v0, gq;
  bool noline = rl::value_set(L, e, rl::Q(0), v0, gq);
  Q rlo = Q(s.mn), rhi = Q(s.mn + s.M);                       // R = [rlo, rhi)
  if (noline && gq == 0 && v0 >= rlo && v0 < rhi) return L;     // a constant in R: unchanged
  if (s.ov == 2) {
    if (!noline) return L;
    if (gq == 0) return rl::Grid::make_empty(n);              // a constant outside R
    // values v0 + k*gq in [rlo, rhi)
    Z k0 = ceil_q((rlo - v0) / gq); Q first = v0 + Q(k0) * gq;
    if (first >= rhi) return rl::Grid::make_empty(n);
    if (first + gq >= rhi) { rl::Grid r(L); if (lenient) r.affine_image(j, rl::Vec(n, rl::Q(0)), first, rl::Q(1)); else r.add_congruence(e, first, rl::Q(0)); return r; }
    return L;
  }
  if (s.ov == 1) { rl::Grid r(L); r.add_param(e); return r; }
  // wraps
  if (noline && is_int(gq / Q(s.M))) {
    Q a = v0 - Q(s.M) * Q(floor_q((v0 - rlo) / Q(s.M)));       // a' = v0 mod 2^w in R
    rl::Grid r(L); r.affine_image(j, rl::Vec(n, rl::Q(0)), a, rl::Q(1)); return r;
  }
  rl::Grid r(L); rl::Vec pv(n, rl::Q(0)); pv[j] = Q(s.M); r.add_param(pv); return r;
}

void run_grid(Ctx& c) {
  Tape& t = c.t; const std::string dom = "grid";
  const size_t n = (size_t) t.range(1, 3);
  Spec s = gen_spec(c, n, 3, false);
  const bool drop_all = t.chance(50); const long drop_cc = t.range(0, 2), drop_mask = t.range(0, (1L << n) - 1);
  // congruences
  std::vector<GCong> cgs; int k = t.weighted({10, 40, 35, 15});
  for (int i = 0; i < k; ++i) {
    GCong g; g.e = LE(n);
    for (size_t j = 0; j < n; ++j) g.e.a[j] = t.weighted({35, 65}) == 0 ? 0 : t.range(-3, 3);
    if (g.e.all_zero()) g.e.a[t.range(0, (long) n - 1)] = 1;
    if (s.V.size() >= 2 && t.chance(8)) {     // an equality tying two wrapped variables with a fractional offset (no point integer on both)
      g.e = LE(n); long a = t.range(2, 3); g.e.a[s.V[0]] = a; g.e.a[s.V[1]] = t.chance(50) ? a : -a; g.e.b = a * t.range(-3, 3) + t.range(1, a - 1); g.m = 0; cgs.push_back(g);
      GCong h; h.e = LE(n); h.e.a[s.V[0]] = t.chance(50) ? a : 1; h.e.b = t.range(-5, 5); h.m = t.chance(50) ? Z(7) : Z(s.M + 1); cgs.push_back(h); continue; }
    if (t.chance(12)) { g.e = LE(n); g.e.a[s.V[t.range(0, (long) s.V.size() - 1)]] = 1; g.e.b = -(s.M * t.range(-2, 2) + s.mn + gen_off(t, s.M)); g.m = t.chance(50) ? Z(0) : s.M; cgs.push_back(g); continue; }
    switch (t.weighted({30, 30, 20, 20})) { case 0: g.e.b = t.range(-5, 5); break; case 1: g.e.b = t.range(-300, 300); break; case 2: g.e.b = -(s.mn + gen_off(t, s.M)); break; default: g.e.b = s.M * t.range(-2, 2) + t.range(-3, 3); }
    switch (t.weighted({22, 8, 10, 8, 8, 12, 8, 8, 8, 8})) {
    case 0: g.m = 0; break; case 1: g.m = 1; break; case 2: g.m = 2; break; case 3: g.m = 3; break; case 4: g.m = 7; break;
    case 5: g.m = s.M; break; case 6: g.m = s.M * 2; break; case 7: g.m = s.M / 2; break; case 8: g.m = 100; break; default: g.m = s.M * 3 / 4 + t.range(0, 60); }
    cgs.push_back(g);
  }
  c.log << "grid dim " << n << "\n  argument: {";
  Grid arg(n); rl::Grid L(n);
  for (size_t i = 0; i < cgs.size(); ++i) {
    c.log << (i ? ", " : "") << cgs[i].e.str() << (cgs[i].m == 0 ? " = 0" : " = 0 (mod " + pstr(cgs[i].m) + ")");
    arg.refine_with_congruence((cgs[i].e.ppl() %= 0) / Coefficient(cgs[i].m));
    L.add_congruence(cgs[i].e.vec(), Q(-cgs[i].e.b), Q(cgs[i].m));
  }
  c.log << "}\n  model: " << L.show() << "\n";
  { QuadInfo qi; qi.empty = L.empty; qi.unbounded = !L.empty; tag_common(c, dom, s, qi); }
  long checked = 0;

  // ---- (1) wrap
  {
    log_spec(c, s);
    Grid d(arg); Constraint_System gcs = s.guard_cs(); Variables_Set vs = s.vs();
    rl::Grid H(L); for (size_t i = 0; i < s.V.size(); ++i) { rl::Vec e(n, rl::Q(0)); e[s.V[i]] = 1; H.add_congruence(e, rl::Q(0), rl::Q(1)); }
    bool threw = false; std::string what;
    try { d.wrap_assign(vs, s.w, s.rep(), s.ovf(), s.has_guard ? &gcs : 0, s.thr, s.indiv); }
    catch (std::invalid_argument& e) { threw = true; what = e.what(); }
    if (threw) {
      c.log << "  wrap_assign threw std::invalid_argument: " << what << "\n";
      if (s.ov == 0 && s.V.size() >= 2 && !L.empty && H.empty && vf::kf("KF-C17-11")) { c.excluded("KF-C17-11"); goto after_wrap; }
      c.check(dom + ".wrap.throws", false, "wrap_assign threw std::invalid_argument on valid arguments: " + what + "; argument " + L.show());
    }
    c.check(dom + ".wrap.ok", d.OK(), "wrap_assign: result fails OK()");
    {
    Congruence_System rc = d.congruences();
    rl::Grid R = grid_from_ppl(d, n);
    c.log << "  result: " << R.show() << "\n";
    bool skip_contains = false, skip_upper = false;
    auto known = [&](const char* id, bool contains, bool upper) { c.tag(std::string("class ") + id); if (vf::kf(id)) { c.excluded(id); if (contains) skip_contains = true; if (upper) skip_upper = true; } };
    if (!L.empty) for (size_t i = 0; i < s.V.size(); ++i) {
      rl::Vec e(n, rl::Q(0)); e[s.V[i]] = 1; rl::Q v0, gq;
      bool noline = rl::value_set(L, e, rl::Q(0), v0, gq);
      if (!noline) { if (s.ov == 0) known("KF-C17-3", true, false); if (s.ov == 1) known("KF-C17-8", false, true); continue; }
      if (gq == 0) {                 // a constant
        if (s.ov == 0 && s.sgn && is_int(v0) && !s.in_range(v0.get_num())) { Z r; mpz_tdiv_r(r.get_mpz_t(), v0.get_num_mpz_t(), s.M.get_mpz_t()); if (!s.in_range(r)) known("KF-C17-5", true, true); }
        continue;
      }
      if (s.ov == 1) { if (!is_int(v0) || !is_int(gq)) known("KF-C17-8", false, true); continue; }
      Z fn = gq.get_num();
      bool branch = fn == s.M || (s.ov == 2 && 2 * fn >= s.M);
      if (s.ov == 0 && gq != Q(s.M) && is_int(gq / Q(s.M))) known("KF-C17-9", false, true);
      if (!branch) continue;
      rl::Grid Hv(L); Hv.add_congruence(e, rl::Q(0), rl::Q(1)); if (Hv.empty) continue;
      rl::Q hv0, hgq; rl::value_set(Hv, e, rl::Q(0), hv0, hgq); if (hgq == 0) continue;      // integer values of x: hv0 + hgq Z
      rl::Q rv0, rgq; bool rnoline = rl::value_set(R, e, rl::Q(0), rv0, rgq);
      bool rconst = !R.empty && rnoline && rgq == 0;
      bool a_value = rconst && is_int(rv0) && is_int((rv0 - hv0) / hgq);                       // the constant is an integer value of x in the argument
      if ((!is_int(gq) || !is_int(v0)) && rconst && !a_value) { known("KF-C17-4", true, true); continue; }
      Z hz = hv0.get_num(), hf = hgq.get_num(), first = hz + hf * ceil_q(Q(s.mn - hz) / Q(hf)), count = first > s.mx ? Z(0) : Z(1 + fdiv(s.mx - first, hf));
      if (count != 1 || (s.sgn && a_value && !s.in_range(rv0.get_num()))) known("KF-C17-7", true, true);
    }
    c.log << "  argument with integer wrapped coordinates: " << H.show() << "\n";
    if (!H.empty && !skip_contains) for (int it = 0; it < 40; ++it) {
      Vec p = H.p;
      for (size_t q = 0; q < H.params.size(); ++q) {
        Q big = 0; for (size_t i = 0; i < s.V.size(); ++i) { Q a = abs(H.params[q][s.V[i]]); if (a > big) big = a; }
        Z kk;
        switch (t.weighted({15, 20, 20, 20, 25})) {
        case 0: kk = 0; break; case 1: kk = t.range(-2, 2); break; case 2: kk = t.range(-300, 300); break;
        case 3: { Q r = big == 0 ? Q(1) : Q(s.M) / big; kk = floor_q(r * Q(t.range(-3, 3))) + t.range(-2, 2); break; }
        default: { Q r = big == 0 ? Q(1) : Q(s.M) / big; kk = floor_q(r * Q(t.range(-3000, 3000)) / 1000); break; } }
        rl::axpy(p, Q(kk), H.params[q]);
      }
      for (size_t q = 0; q < H.lines.size(); ++q) { static const long LN[] = { 0, 1, -1, 1, 7, -250 }, LD[] = { 1, 1, 1, 2, 3, 1 }; int ix = (int) t.range(0, 5); Q tq(LN[ix], LD[ix]); tq.canonicalize(); rl::axpy(p, tq, H.lines[q]); }
      c.check("oracle.sample", L.contains_point(p), [&] { return "harness bug: sample " + show_pt(p) + " not in the model " + L.show(); });
      bool ints = true; for (size_t i = 0; i < s.V.size(); ++i) if (!is_int(p[s.V[i]])) ints = false;
      c.check("oracle.sample", ints, [&] { return "harness bug: sample " + show_pt(p) + " not integer on the wrapped dims"; });
      std::vector<Vec> req; images(s, t, p, req);
      for (size_t r = 0; r < req.size(); ++r) {
        if (!s.guard_ok(req[r])) continue;
        ++checked;
        c.check(dom + ".wrap.contains", sat_cgs(rc, req[r]), [&] {
          return "wrap_assign lost a point: argument point " + show_pt(p) + " requires " + show_pt(req[r]) + " in the result " + R.show() + " (congruences " + pstr(rc) + "); argument " + L.show(); });
      }
    }
    // the documented rule, one wrapped variable, no guard
    if (s.V.size() == 1) {
      rl::Grid up = grid_rule(L, s, s.V[0], true), up2 = grid_rule(H, s, s.V[0], true), low = grid_rule(H, s, s.V[0], false);
      if (!skip_contains) c.check(dom + ".wrap.rule_lower", R.contains(low), [&] { return "result " + R.show() + " does not contain the documented result for the integer part of the argument " + low.show() + "; argument " + L.show(); });
      // precision only (the documented rule as an upper bound): not a C17 verdict
      if (!skip_upper && !(up.contains(R) || up2.contains(R))) c.tag("precision: grid result above the documented rule");
      c.tag("grid rule checked");
    }
    }
    after_wrap:
    if (checked > 0) c.nt();
  }

  // ---- (2) drop
  {
    Grid d(arg); bool all = drop_all; std::vector<size_t> dims;
    static const Complexity_Class CC[] = { ANY_COMPLEXITY, SIMPLEX_COMPLEXITY, POLYNOMIAL_COMPLEXITY };
    Complexity_Class cc = CC[drop_cc];
    if (all) { for (size_t j = 0; j < n; ++j) dims.push_back(j); d.drop_some_non_integer_points(cc); }
    else { long mask = drop_mask; Variables_Set vs; for (size_t j = 0; j < n; ++j) if (mask & (1L << j)) { dims.push_back(j); vs.insert(Variable(j)); } d.drop_some_non_integer_points(vs, cc); }
    c.log << "drop_some_non_integer_points(" << (all ? "all" : "vars") << " #" << dims.size() << ", " << cc_name(cc) << ")\n";
    c.check(dom + ".drop.ok", d.OK(), "drop_some_non_integer_points: result fails OK()");
    rl::Grid R = grid_from_ppl(d, n), E(L);
    for (size_t i = 0; i < dims.size(); ++i) { rl::Vec e(n, rl::Q(0)); e[dims[i]] = 1; E.add_congruence(e, rl::Q(0), rl::Q(1)); }
    c.check(dom + ".drop.subset", L.contains(R), [&] { return "drop result " + R.show() + " not included in the argument " + L.show(); });
    c.check(dom + ".drop.keeps", R.contains(E), [&] { return "drop result " + R.show() + " lost integer points: expected " + E.show() + "; argument " + L.show(); });
    c.check(dom + ".drop.exact", E.contains(R), [&] { return "drop result " + R.show() + " keeps points with non-integer designated coordinates (documented: all removed): expected " + E.show(); });
    c.tag(std::string("drop ") + (all ? "all" : "vars") + " " + cc_name(cc));
  }
  // ---- (3) contains_integer_point
  {
    bool got = arg.contains_integer_point();
    rl::Grid E(L); for (size_t j = 0; j < n; ++j) { rl::Vec e(n, rl::Q(0)); e[j] = 1; E.add_congruence(e, rl::Q(0), rl::Q(1)); }
    c.check(got ? dom + ".cip.false" : dom + ".cip.true", got == !E.empty, [&] { return std::string("contains_integer_point() = ") + (got ? "true" : "false") + " but the integer part of " + L.show() + " is " + E.show(); });
    c.tag(E.empty ? "cip none" : "cip yes");
  }
}

} // namespace

void vf_case(vf::Ctx& c) {
  int dom = c.t.weighted({14, 12, 16, 12, 12, 12, 10, 6, 6});
  switch (dom) {
  //                                                        style strict readback maxw powerset box
  case 0: { Flags f = { 0, false, false, 3, false, false }; run_generic<C_Polyhedron>(c, "cpoly", f); break; }
  case 1: { Flags f = { 0, true, false, 3, false, false }; run_generic<NNC_Polyhedron>(c, "nnc", f); break; }
  case 2: run_grid(c); break;
  case 3: { Flags f = { c.t.chance(30) ? 0 : 3, true, true, 3, false, true }; run_generic<Rational_Box>(c, "qbox", f); break; }
  case 4: { Flags f = { c.t.chance(20) ? 0 : 1, false, true, 3, false, false }; run_generic<BD_Shape<mpq_class> >(c, "bds", f); break; }
  case 5: { Flags f = { c.t.chance(20) ? 0 : 2, false, true, 3, false, false }; run_generic<Octagonal_Shape<mpq_class> >(c, "oct", f); break; }
  case 6: { Flags f = { 0, false, false, 3, true, false }; run_generic<Pointset_Powerset<C_Polyhedron> >(c, "pps", f); break; }
  case 7: { Flags f = { 1, false, true, 1, false, false }; run_generic<BD_Shape<int32_t> >(c, "bds32", f); break; }
  default: { Flags f = { 3, true, true, 2, false, true }; run_generic<Double_Box>(c, "dbox", f); break; }
  }
}
VF_MAIN
