// Shared harness support: choice tape, case context, counters, replay,
// shrinking, rapidcheck driver loop, PPL assertion handlers.
//
// A *case* is a finite tape of 32-bit choices; the property-specific function
// `void vf_case(vf::Ctx&)` decodes it into structured inputs (constructively)
// and throws vf::Fail on an oracle disagreement.  rapidcheck generates and
// shrinks the tape; the same function replays a saved tape without rapidcheck.
#ifndef VF_COMMON_HH
#define VF_COMMON_HH

#include <rapidcheck.h>
#include <gmpxx.h>
#include <cstdint>
#include <cstdio>
#include <cstdlib>
#include <cstring>
#include <csignal>
#include <unistd.h>
#include <fcntl.h>
#include <string>
#include <vector>
#include <map>
#include <set>
#include <sstream>
#include <fstream>
#include <iostream>
#include <stdexcept>
#include <chrono>
#include <functional>

namespace vf {

// ---------------------------------------------------------------- failures
struct Fail {
  std::string id, msg;
  Fail(const std::string& i, const std::string& m) : id(i), msg(m) {}
};
struct Inconclusive {
  std::string why;
  explicit Inconclusive(const std::string& w) : why(w) {}
};
struct PplAssert : std::logic_error {
  std::string site;
  PplAssert(const std::string& s, const std::string& what) : std::logic_error(what), site(s) {}
};

// ---------------------------------------------------------------- tape
class Tape {
public:
  std::vector<uint32_t> v;      // raw choices
  std::vector<uint32_t> used;   // normalised choices actually consumed
  size_t pos;
  Tape() : pos(0) {}
  explicit Tape(const std::vector<uint32_t>& x) : v(x), pos(0) {}
  bool exhausted() const { return pos >= v.size(); }
  // uniform-ish integer in [lo, hi]; lo when the tape is exhausted
  long range(long lo, long hi) {
    if (hi <= lo) { return lo; }
    uint64_t span = (uint64_t)(hi - lo) + 1;
    uint32_t raw = pos < v.size() ? v[pos] : 0;
    ++pos;
    uint32_t eff = (uint32_t)(raw % span);
    used.push_back(eff);
    return lo + (long) eff;
  }
  // true with probability ~ pct/100 (false when exhausted / shrunk to 0)
  bool chance(int pct) { return range(0, 99) >= 100 - pct; }
  // index by weights; index 0 is the "simplest"
  int weighted(std::initializer_list<int> w) {
    long tot = 0; for (int x : w) tot += x;
    long r = range(0, tot - 1); int i = 0;
    for (int x : w) { if (r < x) return i; r -= x; ++i; }
    return 0;
  }
  template <typename T> const T& pick(const std::vector<T>& xs) { return xs[range(0, (long) xs.size() - 1)]; }
};

inline uint64_t fnv(const std::vector<uint32_t>& xs) {
  uint64_t h = 1469598103934665603ULL;
  for (uint32_t x : xs) for (int k = 0; k < 4; ++k) { h ^= (x >> (8 * k)) & 0xff; h *= 1099511628211ULL; }
  return h;
}

// ---------------------------------------------------------------- known findings
inline const std::set<std::string>& kf_active_set() {
  static std::set<std::string> s; static bool init = false;
  if (!init) { init = true; const char* e = std::getenv("VERIF_KF_ACTIVE");
    if (e) { std::string cur; for (const char* p = e; ; ++p) { if (*p == ',' || *p == 0) { if (!cur.empty()) s.insert(cur); cur.clear(); if (!*p) break; } else cur += *p; } } }
  return s;
}
inline bool kf(const char* id) { return kf_active_set().count(id) != 0; }

// ---------------------------------------------------------------- stats
struct Stats {
  long evaluations = 0, nontrivial = 0, inconclusive = 0;
  std::set<uint64_t> nt_hashes;
  std::map<std::string, long> hist, excluded, inconc, ignored_asserts;
  std::vector<std::string> samples;
  double wall = 0;
};
inline Stats& stats() { static Stats s; return s; }

inline std::set<std::string>& muted() { static std::set<std::string> s; return s; }

// ---------------------------------------------------------------- context
struct Ctx {
  Tape t;
  std::ostringstream log;         // human readable rendering of the case
  bool nontrivial = false;
  bool verbose = false;
  std::vector<std::string> tags;
  explicit Ctx(const std::vector<uint32_t>& tape) : t(tape) {}
  void tag(const std::string& s) { tags.push_back(s); }
  void nt() { nontrivial = true; }
  // Oracle check; `id' names the check (stable across runs, used by known findings).
  void check(const std::string& id, bool ok, const std::function<std::string()>& msg) {
    if (!ok && !muted().count(id)) throw Fail(id, msg());
  }
  void check(const std::string& id, bool ok, const std::string& msg = "") {
    if (!ok && !muted().count(id)) throw Fail(id, msg);
  }
  // cases swallowed by a known-finding class
  void excluded(const std::string& kfid) { stats().excluded[kfid]++; }
};

struct Info {
  const char* property;     // "C01"
  const char* target;       // binary name
  double scale;             // tape length = rapidcheck size * scale (max ~ 100*scale)
};

} // namespace vf

// Property-specific entry points (defined by each harness .cc)
void vf_case(vf::Ctx& c);
extern const vf::Info vf_info;

// ---------------------------------------------------------------- PPL handlers
// Strong definitions of PPL's weak assertion handlers (DESIGN.md F2/F11).
// Policy: an internal assertion is a *lead*, never a verdict.  With hook H1
// (-DBUGSENG_PPL_VERIF) the handler records the site and RETURNS, i.e. execution
// continues exactly as in the shipped NDEBUG configuration; the behavioural oracles
// decide.  PPL_UNREACHABLE aborts in the shipped configuration too, so it throws
// (a crash of the shipped library is a verdict).
namespace vf {
inline std::vector<std::string>& fired_asserts() { static std::vector<std::string> v; return v; }
}
namespace Parma_Polyhedra_Library {
void ppl_assertion_failed(const char* t, const char* f, unsigned l, const char*) {
  const char* base = std::strrchr(f, '/'); base = base ? base + 1 : f;
  std::string site = std::string(base) + ":" + std::to_string(l);
  if (vf::fired_asserts().size() < 50) vf::fired_asserts().push_back(site + " (" + t + ")");
#ifdef BUGSENG_PPL_VERIF
  return;
#else
  throw vf::PplAssert(site, std::string("PPL assertion failed: ") + t + " at " + site);
#endif
}
void ppl_unreachable_msg(const char* t, const char* f, unsigned l, const char*) {
  const char* base = std::strrchr(f, '/'); base = base ? base + 1 : f;
  std::string site = std::string(base) + ":" + std::to_string(l);
  throw vf::PplAssert("unreachable:" + site, std::string("PPL_UNREACHABLE reached (abort() in the shipped build): ") + t + " at " + site);
}
void ppl_unreachable() { throw vf::PplAssert("unreachable", "PPL_UNREACHABLE reached (abort() in the shipped build)"); }
}

namespace vf {

// ---------------------------------------------------------------- running one case
struct Outcome {
  enum Kind { PASS, FAIL, INCONCLUSIVE } kind = PASS;
  std::string id, msg, log;
  std::vector<uint32_t> used;
  bool nontrivial = false;
  std::vector<std::string> tags;
  std::vector<std::string> asserts;   // internal assertion sites that fired (leads)
};

// hook for per-harness budget exceptions (refgeom etc.)
inline bool classify_exception(std::exception& e, Outcome& o) {
  std::string w = e.what();
  if (w.find("budget") != std::string::npos) { o.kind = Outcome::INCONCLUSIVE; o.msg = w; return true; }
  return false;
}

static Ctx* g_ctx = 0;                     // context of the running case (crash diagnostics in replay mode)

// per-case reset of oracle budgets (overridable by defining VF_CASE_BEGIN before including common.hh)
inline void case_begin_hook() {
#ifdef VF_CASE_BEGIN
  VF_CASE_BEGIN;
#endif
}

inline Outcome run_one(const std::vector<uint32_t>& tape, bool verbose = false) {
  Outcome o; Ctx c(tape); c.verbose = verbose; g_ctx = &c;
  fired_asserts().clear();
  case_begin_hook();
  try { vf_case(c); }
  catch (Fail& f) { o.kind = Outcome::FAIL; o.id = f.id; o.msg = f.msg; }
  catch (Inconclusive& i) { o.kind = Outcome::INCONCLUSIVE; o.msg = i.why; }
  catch (PplAssert& a) { o.kind = Outcome::FAIL; o.id = (a.site.compare(0, 11, "unreachable") == 0 ? "" : "assert:") + a.site; o.msg = a.what(); }
  catch (rc::detail::CaseResult&) { throw; }
  catch (std::bad_alloc&) { o.kind = Outcome::INCONCLUSIVE; o.msg = "bad_alloc"; }
  catch (std::exception& e) {
    if (!classify_exception(e, o)) { o.kind = Outcome::FAIL; o.id = std::string("exception:") + typeid(e).name(); o.msg = e.what(); }
  }
  o.asserts = fired_asserts();
  if (o.kind == Outcome::FAIL && !o.asserts.empty()) { o.msg += "  [internal assertions fired first: "; for (size_t i = 0; i < o.asserts.size() && i < 3; ++i) o.msg += (i ? "; " : "") + o.asserts[i]; o.msg += "]"; }
  o.log = c.log.str(); o.used = c.t.used; o.nontrivial = c.nontrivial; o.tags = c.tags;
  g_ctx = 0;
  return o;
}

// ---------------------------------------------------------------- tape files
inline void write_tape(const std::string& path, const std::vector<uint32_t>& tape, const Outcome* o, const char* note = 0) {
  std::ofstream f(path.c_str());
  f << "# vf-tape v1 property=" << vf_info.property << " target=" << vf_info.target << "\n";
  if (note) f << "# " << note << "\n";
  for (size_t i = 0; i < tape.size(); ++i) f << tape[i] << ((i % 16 == 15) ? "\n" : " ");
  f << "\n";
  if (o) {
    f << "# --- outcome: " << (o->kind == Outcome::FAIL ? "FAIL check=" + o->id : o->kind == Outcome::PASS ? "PASS" : "INCONCLUSIVE") << "\n";
    std::istringstream m(o->msg); std::string line;
    while (std::getline(m, line)) f << "# ! " << line << "\n";
    std::istringstream l(o->log);
    while (std::getline(l, line)) f << "# | " << line << "\n";
  }
}
inline bool read_tape(const std::string& path, std::vector<uint32_t>& tape) {
  std::ifstream f(path.c_str()); if (!f) return false;
  std::string line; tape.clear();
  while (std::getline(f, line)) {
    if (!line.empty() && line[0] == '#') continue;
    std::istringstream s(line); unsigned long x; while (s >> x) tape.push_back((uint32_t) x);
  }
  return true;
}

// ---------------------------------------------------------------- own shrinker (polishes rapidcheck's result)
inline std::vector<uint32_t> shrink_tape(std::vector<uint32_t> tape, const std::string& id, long budget = 4000) {
  auto fails = [&](const std::vector<uint32_t>& t, std::vector<uint32_t>* norm) {
    if (budget-- <= 0) return false;
    Outcome o = run_one(t); if (o.kind == Outcome::FAIL && o.id == id) { if (norm) *norm = o.used; return true; } return false; };
  std::vector<uint32_t> norm;
  if (fails(tape, &norm)) tape = norm; else return tape;
  bool progress = true;
  while (progress && budget > 0) {
    progress = false;
    // delete chunks
    for (size_t chunk = 16; chunk >= 1; chunk /= 2) {
      for (size_t i = 0; i + chunk <= tape.size(); ) {
        std::vector<uint32_t> cand(tape.begin(), tape.begin() + i); cand.insert(cand.end(), tape.begin() + i + chunk, tape.end());
        if (fails(cand, &norm)) { tape = norm; progress = true; } else ++i;
        if (budget <= 0) break;
      }
      if (chunk == 1) break;
    }
    // lower values
    for (size_t i = 0; i < tape.size() && budget > 0; ++i) {
      if (tape[i] == 0) continue;
      std::vector<uint32_t> cand = tape; cand[i] = 0;
      if (fails(cand, &norm)) { tape = norm; progress = true; continue; }
      uint32_t v = tape[i];
      for (uint32_t tryv : { v / 2, v - 1 }) { if (tryv == 0 || tryv >= v) continue; cand = tape; cand[i] = tryv; if (fails(cand, &norm)) { tape = norm; progress = true; break; } }
    }
  }
  return tape;
}

// ---------------------------------------------------------------- JSON helpers
inline std::string jstr(const std::string& s) {
  std::string o = "\"";
  for (unsigned char ch : s) {
    if (ch == '"') o += "\\\""; else if (ch == '\\') o += "\\\\"; else if (ch == '\n') o += "\\n"; else if (ch == '\t') o += "\\t";
    else if (ch < 0x20) { char b[8]; std::snprintf(b, sizeof b, "\\u%04x", ch); o += b; } else o += (char) ch;
  }
  return o + "\"";
}
inline void jmap(std::ostream& f, const char* key, const std::map<std::string, long>& m) {
  f << jstr(key) << ": {"; bool first = true;
  for (auto& kv : m) { f << (first ? "" : ", ") << jstr(kv.first) << ": " << kv.second; first = false; }
  f << "}";
}
inline void write_partial(const std::string& path, const std::string& status, const Outcome* failure) {
  Stats& s = stats();
  std::ofstream f((path + ".tmp").c_str());
  f << "{\n" << jstr("property") << ": " << jstr(vf_info.property) << ", " << jstr("target") << ": " << jstr(vf_info.target) << ",\n";
  f << jstr("status") << ": " << jstr(status) << ",\n";
  f << jstr("evaluations") << ": " << s.evaluations << ", " << jstr("nontrivial") << ": " << s.nontrivial << ", "
    << jstr("inconclusive") << ": " << s.inconclusive << ", " << jstr("wall_s") << ": " << s.wall << ",\n";
  f << jstr("nt_hashes") << ": ["; { bool first = true; for (uint64_t h : s.nt_hashes) { f << (first ? "" : ",") << "\"" << std::hex << h << std::dec << "\""; first = false; } } f << "],\n";
  jmap(f, "hist", s.hist); f << ",\n"; jmap(f, "excluded", s.excluded); f << ",\n"; jmap(f, "inconclusive_why", s.inconc); f << ",\n";
  jmap(f, "ignored_asserts", s.ignored_asserts); f << ",\n";
  f << jstr("samples") << ": ["; for (size_t i = 0; i < s.samples.size(); ++i) f << (i ? ", " : "") << jstr(s.samples[i]); f << "]";
  if (failure) f << ",\n" << jstr("failure") << ": {" << jstr("id") << ": " << jstr(failure->id) << ", " << jstr("msg") << ": " << jstr(failure->msg) << "}";
  f << "\n}\n"; f.close();
  std::rename((path + ".tmp").c_str(), path.c_str());
}

// ---------------------------------------------------------------- crash capture
static std::vector<uint32_t> g_current;   // tape being executed
static char g_failout[512];
inline void crash_handler(int sig) {
  if (g_ctx && g_ctx->verbose) { std::string l = g_ctx->log.str(); if (::write(2, l.data(), l.size()) < 0) {} }
  // hook H2: the crash happened while the CONDITION of a library assertion was being evaluated - code that does not exist in the shipped
  // build.  Exit code 39 makes the driver treat it like a fired assertion: a lead that must be confirmed in the rel flavour.
  bool in_assert = false;
#ifdef BUGSENG_PPL_VERIF
  in_assert = Parma_Polyhedra_Library::Verif_In_Assert::count() != 0;
#endif
  if (g_failout[0]) {
    int fd = ::open(g_failout, O_WRONLY | O_CREAT | O_TRUNC, 0644);
    if (fd >= 0) {
      char buf[256]; int n = std::snprintf(buf, sizeof buf, "# vf-tape v1 property=%s target=%s crash signal=%d%s\n", vf_info.property, vf_info.target, sig, in_assert ? " (inside the evaluation of an assertion)" : ""); if (n > (int) sizeof buf - 1) n = (int) sizeof buf - 1; if (::write(fd, buf, n) < 0) {}
      for (size_t i = 0; i < g_current.size(); ++i) { n = std::snprintf(buf, sizeof buf, "%u\n", g_current[i]); if (::write(fd, buf, n) < 0) {} }
      ::close(fd);
    }
  }
  ::_exit(in_assert ? 39 : 40 + (sig & 15));
}
inline void install_crash_handlers() {
  for (int sg : { SIGSEGV, SIGABRT, SIGFPE, SIGBUS, SIGILL }) std::signal(sg, crash_handler);
}

// ---------------------------------------------------------------- bookkeeping after a passing case
inline void account(const Outcome& o) {
  Stats& s = stats();
  s.evaluations++;
  for (const std::string& t : o.tags) s.hist[t]++;
  { std::set<std::string> seen; for (const std::string& a : o.asserts) if (seen.insert(a).second) s.ignored_asserts[a]++; }
  if (o.kind == Outcome::INCONCLUSIVE) { s.inconclusive++; s.inconc[o.msg.substr(0, 60)]++; return; }
  if (o.nontrivial) {
    s.nontrivial++;
    if (s.nt_hashes.size() < 2000000) s.nt_hashes.insert(fnv(o.used));
    if (s.samples.size() < 3 || (s.samples.size() < 6 && s.nontrivial % 997 == 0)) s.samples.push_back(o.log.substr(0, 3000));
  }
}

// ---------------------------------------------------------------- main
inline int main_impl(int argc, char** argv) {
  std::string mode, file, out, failout; uint64_t seed = 1; long cases = 1000; int size = 100; double secs = 1e9; bool verbose = false; bool survey = false;
  for (int i = 1; i < argc; ++i) {
    std::string a = argv[i];
    auto next = [&]() -> std::string { if (i + 1 >= argc) { std::cerr << "missing value for " << a << "\n"; std::exit(2); } return argv[++i]; };
    if (a == "--worker") mode = "worker"; else if (a == "--replay") { mode = "replay"; file = next(); }
    else if (a == "--shrink") { mode = "shrink"; file = next(); out = next(); }
    else if (a == "--tape2bin") { mode = "tape2bin"; file = next(); out = next(); }
    else if (a == "--seed") seed = std::strtoull(next().c_str(), 0, 10); else if (a == "--cases") cases = std::atol(next().c_str());
    else if (a == "--size") size = std::atoi(next().c_str()); else if (a == "--secs") secs = std::atof(next().c_str());
    else if (a == "--out") out = next(); else if (a == "--failout") failout = next(); else if (a == "--verbose") verbose = true; else if (a == "--survey") survey = true;
    else if (a == "--mute") muted().insert(next());
    else { std::cerr << "unknown argument " << a << "\n"; return 2; }
  }
  if (mode == "tape2bin") {   // corpus entry for the libFuzzer target: the tape as little-endian 32-bit words
    std::vector<uint32_t> tape; if (!read_tape(file, tape)) { std::cerr << "cannot read " << file << "\n"; return 2; }
    std::ofstream f(out.c_str(), std::ios::binary); for (size_t i = 0; i < tape.size(); ++i) for (int b = 0; b < 4; ++b) f.put((char) ((tape[i] >> (8 * b)) & 0xff));
    return 0;
  }
  if (mode == "replay") {
    std::vector<uint32_t> tape; if (!read_tape(file, tape)) { std::cerr << "cannot read " << file << "\n"; return 2; }
    install_crash_handlers(); g_current = tape;
    Outcome o = run_one(tape, verbose);
    if (verbose) std::cout << o.log;
    if (!o.asserts.empty()) std::cout << "ASSERTS " << o.asserts.size() << " " << o.asserts[0] << "\n";
    if (o.kind == Outcome::FAIL) { std::string m = o.msg; for (char& ch : m) if (ch == '\n') ch = ' '; std::cout << "RESULT fail check=" << o.id << " :: " << m << "\n"; return 1; }

    std::cout << "RESULT " << (o.kind == Outcome::PASS ? "pass" : "inconclusive " + o.msg) << "\n"; return 0;
  }
  if (mode == "shrink") {
    std::vector<uint32_t> tape; if (!read_tape(file, tape)) return 2;
    Outcome o = run_one(tape); if (o.kind != Outcome::FAIL) { std::cout << "RESULT pass (nothing to shrink)\n"; return 0; }
    std::vector<uint32_t> t2 = shrink_tape(tape, o.id); Outcome o2 = run_one(t2);
    write_tape(out, t2, &o2, "shrunk");
    std::cout << "RESULT fail check=" << o2.id << " len=" << t2.size() << "\n"; return 1;
  }
  if (mode != "worker") { std::cerr << "usage: --worker --seed N --cases N [--size S] [--secs T] --out partial.json --failout F | --replay F [--verbose] | --shrink IN OUT\n"; return 2; }

  std::snprintf(g_failout, sizeof g_failout, "%s", failout.c_str());
  install_crash_handlers();
  auto t0 = std::chrono::steady_clock::now();
  auto elapsed = [&]() { return std::chrono::duration<double>(std::chrono::steady_clock::now() - t0).count(); };
  const int batch = 50;
  bool failed = false; std::string fail_id; Outcome fail_outcome; std::vector<uint32_t> fail_tape;
  auto tape_gen = rc::gen::scale(vf_info.scale, rc::gen::container<std::vector<uint32_t>>(rc::gen::resize(100, rc::gen::arbitrary<uint32_t>())));
  uint64_t b = 0;
  int n_survey = 0;
  while (stats().evaluations < cases && elapsed() < secs && (!failed || survey)) {
    if (failed && survey) {      // record, mute, go on
      std::vector<uint32_t> t2 = shrink_tape(fail_tape, fail_outcome.id, 1500); Outcome o2 = run_one(t2);
      write_tape(failout + "." + std::to_string(n_survey++), t2, &o2, "survey");
      std::cout << "SURVEY fail check=" << fail_outcome.id << " :: " << o2.msg.substr(0, 300) << std::endl;
      muted().insert(fail_outcome.id); failed = false;
    }
    rc::detail::TestParams p; p.seed = seed * 1000003ULL + b; ++b; p.maxSuccess = (int) std::min<long>(batch, cases - stats().evaluations); p.maxSize = size; p.maxDiscardRatio = 10; p.disableShrinking = true;
    rc::detail::TestMetadata md; md.id = std::string(vf_info.target); md.description = vf_info.property;
    rc::detail::TestResult r = rc::detail::checkTestable([&]() {
      std::vector<uint32_t> tape = *tape_gen;
      g_current = tape;
      Outcome o = run_one(tape);
      if (o.kind == Outcome::FAIL && muted().count(o.id)) { stats().hist["muted " + o.id]++; return; }
      if (!failed) {
        if (o.kind == Outcome::FAIL) { failed = true; fail_id = o.id; fail_outcome = o; fail_tape = tape; RC_FAIL(o.id + ": " + o.msg); }
        account(o);
      } else {                      // shrinking: keep only failures of the same check
        if (o.kind == Outcome::FAIL && o.id == fail_id) { fail_outcome = o; fail_tape = tape; RC_FAIL(o.id); }
      }
    }, md, p);
    (void) r;
  }
  stats().wall = elapsed();
  if (failed && survey) {
    std::vector<uint32_t> t2 = shrink_tape(fail_tape, fail_outcome.id, 1500); Outcome o2 = run_one(t2);
    write_tape(failout + "." + std::to_string(n_survey++), t2, &o2, "survey");
    std::cout << "SURVEY fail check=" << fail_outcome.id << " :: " << o2.msg.substr(0, 300) << std::endl;
    failed = false;
  }
  if (failed) {
    write_tape(failout, fail_tape, &fail_outcome, "as generated (not yet shrunk)");
    write_partial(out, "failed", &fail_outcome);
    std::cout << "WORKER fail check=" << fail_outcome.id << " :: " << fail_outcome.msg.substr(0, 400) << "\n";
    return 1;
  }
  write_partial(out, "ok", 0);
  return 0;
}
} // namespace vf

#ifdef VF_LIBFUZZER
// libFuzzer entry point (build: make FLV=fuzz bin/fz_<harness>): the input bytes ARE the choice tape (little-endian 32-bit words), so that
// coverage feedback steers the same structured decoder the rapidcheck search uses.  The semantic oracle is inside the target: a failing
// check writes the tape in the usual text format (replayable with bin/<harness> --replay) and traps.  Saved tapes converted with
// `--tape2bin` are corpus entries.  Inconclusive cases and muted/known classes return normally.
namespace vf { inline int fuzz_one(const uint8_t* data, size_t size) {
  std::vector<uint32_t> tape(size / 4);
  for (size_t i = 0; i < tape.size(); ++i) tape[i] = (uint32_t) data[4 * i] | ((uint32_t) data[4 * i + 1] << 8) | ((uint32_t) data[4 * i + 2] << 16) | ((uint32_t) data[4 * i + 3] << 24);
  static unsigned long n = 0, nt = 0; ++n;
  Outcome o = run_one(tape);
  if (o.nontrivial) ++nt;
  if (o.kind == Outcome::FAIL) {
    const char* out = std::getenv("VF_FUZZ_FAILOUT");
    write_tape(out ? out : "fuzz-fail.tape", tape, &o, "found by libFuzzer");
    std::cerr << "RESULT fail check=" << o.id << " :: " << o.msg.substr(0, 600) << "\n" << "FUZZ-STATS cases=" << n << " nontrivial=" << nt << std::endl;
    __builtin_trap();
  }
  if ((n & 0xfff) == 0) { if (const char* st = std::getenv("VF_FUZZ_STATS")) { std::ofstream f(st); f << "{\"cases\": " << n << ", \"nontrivial\": " << nt << "}\n"; } }
  return 0; } }
#define VF_MAIN extern "C" int LLVMFuzzerTestOneInput(const uint8_t* data, size_t size) { return vf::fuzz_one(data, size); }
#else
// Sanitizer flavours: a report must end in abort() (not _exit) so that crash_handler saves the tape of the running case and the driver
// gets a replayable violation instead of an unexplained worker exit.  (Unused in the unsanitized flavours; defined once per binary.)
#define VF_MAIN \
  extern "C" __attribute__((used)) const char* __asan_default_options() { return "abort_on_error=1:detect_leaks=0:allocator_may_return_null=1:quarantine_size_mb=48:malloc_context_size=6"; } \
  extern "C" __attribute__((used)) const char* __ubsan_default_options() { return "abort_on_error=1:print_stacktrace=1"; } \
  int main(int argc, char** argv) { return vf::main_impl(argc, argv); }
#endif
#endif
