// C08: widening operators.  Adversarial ascending chains; oracles: upper bound, value dependence (not for NNC polyhedra,
// whose widenings are documented to act on the internal representation), certificate decrease / bounded number of
// non-stationary steps, token semantics, limited / bounded extrapolations sandwiched between the larger argument and the
// plain widening while keeping the supplied constraints that the larger argument satisfies.
#include "poly_common.hh"
#include "reflattice_x.hh"
using namespace vf;
const vf::Info vf_info = { "C08", "c08_widen", 3.0 };

// ---------------------------------------------------------------------------------------------- Sys-modelled domains
template <typename D> struct WT;
template <> struct WT<C_Polyhedron> { static const char* name() { return "C_Polyhedron"; } static const int kind = 3; static const bool nnc = false; static const bool strict = false; };
template <> struct WT<NNC_Polyhedron> { static const char* name() { return "NNC_Polyhedron"; } static const int kind = 3; static const bool nnc = true; static const bool strict = true; };
template <> struct WT<BD_Shape<mpq_class> > { static const char* name() { return "BD_Shape<mpq_class>"; } static const int kind = 1; static const bool nnc = false; static const bool strict = false; };
template <> struct WT<Octagonal_Shape<mpq_class> > { static const char* name() { return "Octagonal_Shape<mpq_class>"; } static const int kind = 2; static const bool nnc = false; static const bool strict = false; };
template <> struct WT<Rational_Box> { static const char* name() { return "Rational_Box"; } static const int kind = 0; static const bool nnc = false; static const bool strict = true; };

template <typename D> static Sys model_of(const D& d, size_t n) { D cp(d); return to_ref(cp.minimized_constraints(), n); }
template <typename D> static size_t n_min_cons(const D& d) { D cp(d); const Constraint_System& cs = cp.minimized_constraints(); size_t k = 0; for (Constraint_System::const_iterator i = cs.begin(); i != cs.end(); ++i) ++k; return k; }

// the widening operators of a domain, by index
template <typename D> struct Ops;
template <> struct Ops<C_Polyhedron> { static int count() { return 2; } static const char* nm(int w) { return w == 0 ? "H79" : "BHRZ03"; }
  static void plain(int w, C_Polyhedron& x, const C_Polyhedron& y, unsigned* tp) { if (w == 0) x.H79_widening_assign(y, tp); else x.BHRZ03_widening_assign(y, tp); }
  static void limited(int w, C_Polyhedron& x, const C_Polyhedron& y, const Constraint_System& cs, unsigned* tp) { if (w == 0) x.limited_H79_extrapolation_assign(y, cs, tp); else x.limited_BHRZ03_extrapolation_assign(y, cs, tp); }
  static bool has_bounded() { return true; }
  static void bounded(int w, C_Polyhedron& x, const C_Polyhedron& y, const Constraint_System& cs, unsigned* tp) { if (w == 0) x.bounded_H79_extrapolation_assign(y, cs, tp); else x.bounded_BHRZ03_extrapolation_assign(y, cs, tp); }
  static bool stabilizing(int w, const C_Polyhedron& prev, const C_Polyhedron& next) { if (w == 0) { H79_Certificate c(static_cast<const Polyhedron&>(prev)); return c.compare(static_cast<const Polyhedron&>(next)) == 1; } BHRZ03_Certificate c(prev); return c.is_stabilizing(next); } static bool has_cert() { return true; } };
template <> struct Ops<NNC_Polyhedron> { static int count() { return 2; } static const char* nm(int w) { return w == 0 ? "H79" : "BHRZ03"; }
  static void plain(int w, NNC_Polyhedron& x, const NNC_Polyhedron& y, unsigned* tp) { if (w == 0) x.H79_widening_assign(y, tp); else x.BHRZ03_widening_assign(y, tp); }
  static void limited(int w, NNC_Polyhedron& x, const NNC_Polyhedron& y, const Constraint_System& cs, unsigned* tp) { if (w == 0) x.limited_H79_extrapolation_assign(y, cs, tp); else x.limited_BHRZ03_extrapolation_assign(y, cs, tp); }
  static bool has_bounded() { return true; }
  static void bounded(int w, NNC_Polyhedron& x, const NNC_Polyhedron& y, const Constraint_System& cs, unsigned* tp) { if (w == 0) x.bounded_H79_extrapolation_assign(y, cs, tp); else x.bounded_BHRZ03_extrapolation_assign(y, cs, tp); }
  static bool stabilizing(int w, const NNC_Polyhedron& prev, const NNC_Polyhedron& next) { if (w == 0) { H79_Certificate c(static_cast<const Polyhedron&>(prev)); return c.compare(static_cast<const Polyhedron&>(next)) == 1; } BHRZ03_Certificate c(prev); return c.is_stabilizing(next); } static bool has_cert() { return true; } };
template <typename S> struct ShapeOps { static int count() { return 3; } static const char* nm(int w) { return w == 0 ? "H79" : w == 1 ? "BHMZ05" : "CC76"; }
  static void plain(int w, S& x, const S& y, unsigned* tp) { if (w == 0) x.widening_assign(y, tp); else if (w == 1) x.BHMZ05_widening_assign(y, tp); else x.CC76_extrapolation_assign(y, tp); }
  static void limited(int w, S& x, const S& y, const Constraint_System& cs, unsigned* tp) { if (w == 2) x.limited_CC76_extrapolation_assign(y, cs, tp); else x.limited_BHMZ05_extrapolation_assign(y, cs, tp); }
  static bool has_bounded() { return false; } static void bounded(int, S&, const S&, const Constraint_System&, unsigned*) {}
  static bool stabilizing(int, const S&, const S&) { return true; } static bool has_cert() { return false; } };
template <> struct Ops<BD_Shape<mpq_class> > : ShapeOps<BD_Shape<mpq_class> > {};
template <> struct Ops<Octagonal_Shape<mpq_class> > : ShapeOps<Octagonal_Shape<mpq_class> > {};
template <> struct Ops<Rational_Box> { static int count() { return 1; } static const char* nm(int) { return "CC76"; }
  static void plain(int, Rational_Box& x, const Rational_Box& y, unsigned* tp) { x.CC76_widening_assign(y, tp); }
  static void limited(int, Rational_Box& x, const Rational_Box& y, const Constraint_System& cs, unsigned* tp) { x.limited_CC76_extrapolation_assign(y, cs, tp); }
  static bool has_bounded() { return false; } static void bounded(int, Rational_Box&, const Rational_Box&, const Constraint_System&, unsigned*) {}
  static bool stabilizing(int, const Rational_Box&, const Rational_Box&) { return true; } static bool has_cert() { return false; } };

template <typename D> struct Chain {
  typedef WT<D> T; Ctx& c; Tape& t; size_t n; std::vector<long> wit;
  Chain(Ctx& c_) : c(c_), t(c_.t), n(0) {}

  RCon gen_dom_con() {   // a constraint of the domain's own class, satisfied by the witness point
    if (T::kind == 3) return gen_con(t, n, wit, T::strict, false);
    RCon rc; rc.e = LE(n); rc.kind = t.weighted({10, 75, T::strict ? 15 : 0});
    size_t i = t.range(0, (long) n - 1), j = t.range(0, (long) n - 1);
    int shape = T::kind == 0 ? 0 : (int) t.range(0, T::kind == 1 ? 1 : 2);
    if (shape == 0 || i == j) rc.e.a[i] = t.chance(50) ? 1 : -1; else if (shape == 1) { rc.e.a[i] = 1; rc.e.a[j] = -1; } else { long s = t.chance(50) ? 1 : -1; rc.e.a[i] = s; rc.e.a[j] = s; }
    rc.e.b = t.range(-6, 6); mpz_class v = rc.e.eval(wit);
    if (rc.kind == 0) rc.e.b -= v; else if (v < 0 || (rc.kind == 2 && v == 0)) rc.e.b -= v - (rc.kind == 2 ? 1 : 0);
    return rc;
  }
  D gen_elem(int maxrows) { D d(n); int m = (int) t.range(1, maxrows); for (int i = 0; i < m; ++i) { RCon rc = gen_dom_con(); d.refine_with_constraint(to_ppl(rc)); } return d; }
  // the same set through a different history
  D rebuild(const D& d, int how) {
    D cp(d);
    if (how == 0) { D r(n); r.refine_with_constraints(cp.minimized_constraints()); return r; }
    if (how == 1) { D r(n); std::vector<Constraint> cs; const Constraint_System& s = cp.constraints(); for (Constraint_System::const_iterator i = s.begin(); i != s.end(); ++i) cs.push_back(*i);
      for (size_t i = cs.size(); i-- > 0; ) r.refine_with_constraint(cs[i]);
      for (size_t i = 0; i + 1 < cs.size(); ++i) if (cs[i].is_nonstrict_inequality() && cs[i + 1].is_nonstrict_inequality()) r.refine_with_constraint(Linear_Expression(cs[i].expression()) + Linear_Expression(cs[i + 1].expression()) >= 0);   // redundant sums
      return r; }
    if (how == 2) { (void) cp.minimized_constraints(); (void) cp.is_empty(); return cp; }
    return cp;
  }
  // grow: join with a point just outside (adversarial: beyond a bounding constraint of the current iterate)
  D grow(const D& x, int step) {
    D z(x); Sys m = model_of(x, n); Vec w; if (ref::is_empty(m, &w)) return z;
    size_t k = 0; if (!m.cs.empty()) k = t.range(0, (long) m.cs.size() - 1);
    Vec p = w;
    if (!m.cs.empty()) { const Con& cc = m.cs[k]; Q den = 0; for (size_t j = 0; j < n; ++j) den += cc.a[j] * cc.a[j]; if (den != 0) { Q val = cc.eval(w); long num = t.pick(std::vector<long>{1, 1, 2, 3}); long dn = t.chance(40) ? (1L << std::min(step, 10)) : 1; Q out = val + mkq(num, dn); for (size_t j = 0; j < n; ++j) p[j] = w[j] - cc.a[j] * out / den; } }
    else p[t.range(0, (long) n - 1)] += 1;
    mpz_class l = 1; for (size_t j = 0; j < n; ++j) l = lcm(l, p[j].get_den()); Linear_Expression le; for (size_t j = n; j-- > 0; ) { Q q = p[j] * l; le += Coefficient(q.get_num()) * Variable(j); }
    C_Polyhedron pt(n, EMPTY); pt.add_generator(point(le, Coefficient(l)));
    if (t.chance(12)) { Linear_Expression r; for (size_t j = n; j-- > 0; ) r += t.range(-2, 2) * Variable(j); if (!r.all_homogeneous_terms_are_zero()) pt.add_generator(ray(r)); }
    D dp(pt); z.upper_bound_assign(dp); return z;
  }

  // KF-C08-1: BHRZ03_Certificate counts the null coordinates of the rays of the minimized generator system, which is not canonical when the
  // polyhedron has a non-trivial lineality space: the certificate, hence the BHRZ03 widening, depends on how the polyhedron was built.
  bool has_lines(const Sys& m) { std::vector<Vec> rows; for (size_t i = 0; i < m.cs.size(); ++i) rows.push_back(m.cs[i].a); return ref::rank(rows) < n; }
  bool kf1(int w, const Sys& mz) { if (T::kind == 3 && w == 1 && has_lines(mz) && kf("KF-C08-1")) { c.excluded("KF-C08-1"); return true; } return false; }
  void run() {
    n = (size_t) t.range(1, 3); wit.resize(8); for (size_t j = 0; j < 8; ++j) wit[j] = t.range(-2, 2);
    int w = (int) t.range(0, Ops<D>::count() - 1); int mode = t.weighted({45, 20, 20, 15});   // 0 chain, 1 tokens, 2 limited, 3 bounded
    if (mode == 3 && !Ops<D>::has_bounded()) mode = 2;
    c.log << "widening " << Ops<D>::nm(w) << " on " << T::name() << " dim " << n << " mode " << mode << "\n"; c.tag(std::string(T::name()) + " " + Ops<D>::nm(w) + " mode " + std::to_string(mode));
    if (t.chance(8)) {
      // The smaller argument is empty: the widening must be the identity, whether or not the emptiness has been detected yet
      // ("depends only on the point sets of the arguments"), and no token is consumed.
      D z = gen_elem(T::kind == 3 ? 6 : 4); Sys mz = model_of(z, n);
      D e_lazy(n, UNIVERSE); e_lazy.add_constraint(Variable(0) >= 1); e_lazy.add_constraint(Variable(0) <= 0);   // empty, not yet detected
      D e_marked(n, EMPTY);
      c.log << " empty smaller argument: z = " << show_sys(mz) << "\n"; c.tag("empty smaller argument");
      { D a(z), b(z); Ops<D>::plain(w, a, e_lazy, 0); Ops<D>::plain(w, b, e_marked, 0); Sys ma = model_of(a, n), mb = model_of(b, n);
        c.check("empty_smaller.identity", ref::equal(ma, mz) && ref::equal(mb, mz), [&] { return std::string(Ops<D>::nm(w)) + " with an empty smaller argument is not the identity: " + show_sys(ma) + " (emptiness undetected) / " + show_sys(mb) + " (marked empty) for z=" + show_sys(mz); }); }
      { D e2(n, UNIVERSE); e2.add_constraint(Variable(0) >= 1); e2.add_constraint(Variable(0) <= 0); unsigned k = 2; D a(z); Ops<D>::plain(w, a, e2, &k);
        c.check("empty_smaller.tokens", k == 2 && ref::equal(model_of(a, n), mz), [&] { return std::string(Ops<D>::nm(w)) + " with an (undetected) empty smaller argument consumed a token or changed the receiver"; }); }
      if (!ref::is_empty(mz)) c.nt();
      return;
    }
    D x = gen_elem(T::kind == 3 ? 6 : 4); int enlarged = 0, nonstationary = 0;
    const bool value_dep = !T::nnc;
    size_t cap_steps = T::kind == 3 ? 40 : 14 * (2 * n) * (2 * n) + 8;
    for (int step = 0; step < 40 && !t.exhausted(); ++step) {
      D z = grow(x, step);                       // larger argument (contains x)
      Sys mx = model_of(x, n), mz = model_of(z, n);
      c.log << " step " << step << ": x = " << show_sys(mx) << "\n           z = " << show_sys(mz) << "\n";
      if (mode == 1) { // tokens
        unsigned k0 = (unsigned) t.range(1, 3), k = k0; D plainz(z); { D xc(x); Ops<D>::plain(w, plainz, xc, 0); } Sys mw = model_of(plainz, n); bool loses = !ref::included(mw, mz);
        D zt(rebuild(z, (T::nnc || kf1(w, mz)) ? 3 : (int) t.range(0, 3))); { D xc(x); Ops<D>::plain(w, zt, xc, &k); } Sys after = model_of(zt, n);
        c.check("tokens.unchanged", ref::equal(after, mz), [&] { return std::string(Ops<D>::nm(w)) + " with tokens modified the receiver: " + show_sys(after) + " was " + show_sys(mz); });
        c.check("tokens.count", k == k0 - (loses ? 1 : 0), [&] { return std::string(Ops<D>::nm(w)) + " with " + std::to_string(k0) + " tokens left " + std::to_string(k) + " but plain widening " + (loses ? "loses" : "does not lose") + " precision: z=" + show_sys(mz) + " x=" + show_sys(mx) + " W=" + show_sys(mw); });
        if (loses) c.nt(); x = z; if (step >= 3) break; continue;
      }
      if (mode >= 2) { // limited / bounded extrapolation
        Constraint_System cs; cs.set_space_dimension(n); std::vector<RCon> rows; std::vector<bool> dom; int m = (int) t.range(1, 3); for (int i = 0; i < m; ++i) { bool dc = t.chance(60); RCon rc = dc ? gen_dom_con() : gen_con(t, n, wit, false, false); if (rc.kind == 2) rc.kind = 1; rows.push_back(rc); dom.push_back(dc || T::kind == 3); cs.insert(to_ppl(rc)); }
        D plainz(z); { D xc(x); Ops<D>::plain(w, plainz, xc, 0); } Sys mw = model_of(plainz, n);
        D r(rebuild(z, (T::nnc || kf1(w, mz)) ? 3 : (int) t.range(0, 3))); { D xc(x); if (mode == 2) Ops<D>::limited(w, r, xc, cs, 0); else Ops<D>::bounded(w, r, xc, cs, 0); } Sys mr = model_of(r, n);
        const char* fam = mode == 2 ? "limited" : "bounded";
        c.check(std::string(fam) + ".upper_bound", ref::included(mz, mr), [&] { return std::string(fam) + " " + Ops<D>::nm(w) + ": result " + show_sys(mr) + " does not contain the larger argument " + show_sys(mz); });
        // (for NNC polyhedra the widenings act on the internal representation, which the limited/bounded variants change before widening:
        //  the comparison with a separately computed plain widening is not meaningful there)
        if (!T::nnc) c.check(std::string(fam) + ".below_widening", ref::included(mr, mw), [&] { return std::string(fam) + " " + Ops<D>::nm(w) + ": result " + show_sys(mr) + " is not included in the plain widening " + show_sys(mw) + " (x=" + show_sys(mx) + ", z=" + show_sys(mz) + ")"; });
        for (size_t i = 0; i < rows.size(); ++i) { Con cc = to_refcon(rows[i]); if (dom[i] && ref::included_in_con(mz, cc)) c.check(std::string(fam) + ".keeps_constraint", ref::included_in_con(mr, cc), [&] { return std::string(fam) + " " + Ops<D>::nm(w) + ": the supplied constraint " + str(rows[i]) + " holds on the larger argument " + show_sys(mz) + " but not on the result " + show_sys(mr); }); }
        if (!ref::equal(mr, mz)) c.nt(); x = z; if (step >= 3) break; continue;
      }
      // plain widening along the chain
      D wz(z); Ops<D>::plain(w, wz, x, 0); Sys mw = model_of(wz, n);
      c.check("upper_bound", ref::included(mz, mw), [&] { return std::string(Ops<D>::nm(w)) + ": result " + show_sys(mw) + " does not contain the larger argument " + show_sys(mz) + " (x=" + show_sys(mx) + ")"; });
      if (value_dep && !kf1(w, mz)) { D z2 = rebuild(z, (int) t.range(0, 3)), x2 = rebuild(x, (int) t.range(0, 3)); Ops<D>::plain(w, z2, x2, 0); Sys m2 = model_of(z2, n);
        c.check("value_dependence", ref::equal(m2, mw), [&] { return std::string(Ops<D>::nm(w)) + " depends on the representation: " + show_sys(mw) + " vs " + show_sys(m2) + " for z=" + show_sys(mz) + " x=" + show_sys(mx); }); }
      bool grew = !ref::included(mw, mz); if (grew) ++enlarged;
      bool stationary = ref::equal(mw, mx);
      if (!stationary) { ++nonstationary;
        if (Ops<D>::has_cert()) c.check("certificate_decreases", Ops<D>::stabilizing(w, x, wz), [&] { return std::string(Ops<D>::nm(w)) + ": the certificate does not decrease from x=" + show_sys(mx) + " to the widened " + show_sys(mw); });
        c.check("bounded_chain", (size_t) nonstationary <= cap_steps, [&] { return std::string(Ops<D>::nm(w)) + ": " + std::to_string(nonstationary) + " non-stationary steps, more than the " + std::to_string(cap_steps) + " the finite set of bounds/stop points allows"; }); }
      x = wz;
    }
    if (enlarged >= 1 && nonstationary >= 3) c.nt(); else if (mode == 0 && enlarged >= 1) c.tag("short chain");
  }
};

// ---------------------------------------------------------------------------------------------- grids
static rl::Grid gmodel(const Grid& g) { Grid cp(g); size_t n = g.space_dimension(); rl::Grid m(n); const Congruence_System& cgs = cp.congruences(); if (cp.is_empty()) return rl::Grid::make_empty(n);
  for (Congruence_System::const_iterator i = cgs.begin(); i != cgs.end(); ++i) { rl::Vec a(n, Q(0)); for (size_t j = 0; j < i->space_dimension(); ++j) a[j] = Q(mpz_class(i->coefficient(Variable(j)))); m.add_congruence(a, Q(mpz_class(-i->inhomogeneous_term())), Q(mpz_class(i->modulus()))); } return m; }
static void grid_case(Ctx& c) {
  Tape& t = c.t; size_t n = (size_t) t.range(1, 3); int w = (int) t.range(0, 1); int mode = t.weighted({55, 20, 25}); c.tag(std::string("Grid ") + (w ? "generator" : "congruence") + " mode " + std::to_string(mode));
  c.log << "grid " << (w ? "generator" : "congruence") << " widening dim " << n << " mode " << mode << "\n";
  Grid x(n, EMPTY); { Linear_Expression e; for (size_t j = n; j-- > 0; ) e += t.range(-2, 2) * Variable(j); x.add_grid_generator(grid_point(e, t.pick(std::vector<long>{1, 2}))); int k = (int) t.range(0, 2); for (int i = 0; i < k; ++i) { Linear_Expression p; bool nz = false; for (size_t j = n; j-- > 0; ) { long a = t.range(-6, 6) * 4; if (a) nz = true; p += a * Variable(j); } if (nz) x.add_grid_generator(parameter(p)); } }
  int nonstationary = 0, enlarged = 0;
  for (int step = 0; step < 20 && !t.exhausted(); ++step) {
    Grid z(x); { Linear_Expression e; for (size_t j = n; j-- > 0; ) e += t.range(-5, 5) * Variable(j); z.add_grid_generator(grid_point(e, t.pick(std::vector<long>{1, 1, 2, 3}))); if (t.chance(10)) { Linear_Expression l; l += Variable(t.range(0, (long) n - 1)); z.add_grid_generator(grid_line(l)); } }
    rl::Grid mx = gmodel(x), mz = gmodel(z); c.log << " step " << step << ": x = " << mx.show() << "  z = " << mz.show() << "\n";
    auto apply = [&](Grid& a, const Grid& b, unsigned* tp) { if (w == 0) a.congruence_widening_assign(b, tp); else a.generator_widening_assign(b, tp); };
    if (mode == 1) { unsigned k0 = (unsigned) t.range(1, 3), k = k0; Grid pw(z); apply(pw, x, 0); rl::Grid mw = gmodel(pw); bool loses = !mz.contains(mw); Grid zt(z); (void) zt.minimized_grid_generators(); apply(zt, x, &k); rl::Grid after = gmodel(zt);
      c.check("grid.tokens.unchanged", after.equals(mz), [&] { return "widening with tokens modified the receiver: " + after.show() + " was " + mz.show(); });
      c.check("grid.tokens.count", k == k0 - (loses ? 1 : 0), [&] { return "tokens " + std::to_string(k0) + " -> " + std::to_string(k) + " but plain widening " + (loses ? "loses" : "does not lose") + " precision; z=" + mz.show() + " x=" + mx.show(); }); if (loses) c.nt(); x = z; if (step >= 3) break; continue; }
    if (mode == 2) { Congruence_System cgs; cgs.set_space_dimension(n); std::vector<rl::Cong> rows; int m = (int) t.range(1, 2); for (int i = 0; i < m; ++i) { Linear_Expression e; rl::Cong rc; rc.a.assign(n, Q(0)); for (size_t j = n; j-- > 0; ) { long a = t.chance(40) ? 0 : t.range(-3, 3); rc.a[j] = a; e += a * Variable(j); } long b = t.range(-3, 3), f = t.pick(std::vector<long>{0, 1, 2, 3}); e += b; rc.b = -b; rc.f = f; rows.push_back(rc); cgs.insert((e %= 0) / f); }
      Grid pw(z); apply(pw, x, 0); rl::Grid mw = gmodel(pw); Grid r(z); if (w == 0) r.limited_congruence_extrapolation_assign(x, cgs, 0); else r.limited_generator_extrapolation_assign(x, cgs, 0); rl::Grid mr = gmodel(r);
      c.check("grid.limited.upper_bound", mr.contains(mz), [&] { return "limited extrapolation " + mr.show() + " does not contain the larger argument " + mz.show(); });
      c.check("grid.limited.below_widening", mw.contains(mr), [&] { return "limited extrapolation " + mr.show() + " not included in the plain widening " + mw.show(); });
      for (size_t i = 0; i < rows.size(); ++i) { rl::Grid tz = mz; tz.add_congruence(rows[i].a, rows[i].b, rows[i].f); if (tz.equals(mz)) { rl::Grid tr = mr; tr.add_congruence(rows[i].a, rows[i].b, rows[i].f); c.check("grid.limited.keeps_congruence", tr.equals(mr), [&] { return "a supplied congruence satisfied by the larger argument " + mz.show() + " is not satisfied by the result " + mr.show(); }); } }
      if (!mr.equals(mz)) c.nt(); x = z; if (step >= 3) break; continue; }
    Grid wz(z); apply(wz, x, 0); rl::Grid mw = gmodel(wz);
    c.check("grid.upper_bound", mw.contains(mz), [&] { return "widening " + mw.show() + " does not contain the larger argument " + mz.show() + " (x=" + mx.show() + ")"; });
    { Grid z2(z), x2(x); (void) z2.minimized_congruences(); (void) x2.minimized_grid_generators(); if (t.chance(50)) { Grid z3(z2.grid_generators()); z2 = z3; } apply(z2, x2, 0); rl::Grid m2 = gmodel(z2);
      c.check("grid.value_dependence", m2.equals(mw), [&] { return "grid widening depends on the representation: " + mw.show() + " vs " + m2.show() + " for z=" + mz.show() + " x=" + mx.show(); }); }
    if (!mz.contains(mw)) ++enlarged;
    if (!mw.equals(mx)) { ++nonstationary; Grid_Certificate cert(x); c.check("grid.certificate_decreases", cert.is_stabilizing(wz), [&] { return "Grid_Certificate does not decrease from " + mx.show() + " to " + mw.show(); }); }
    x = wz;
  }
  if (enlarged >= 1 && nonstationary >= 2) c.nt();
}

// ---------------------------------------------------------------------------------------------- powersets of polyhedra
static void pset_case(Ctx& c) {
  Tape& t = c.t; size_t n = (size_t) t.range(1, 2); std::vector<long> wit(8, 0); int which = (int) t.range(0, 1); c.tag(which ? "Powerset BHZ03<H79>" : "Powerset BGP99<H79>");
  typedef Pointset_Powerset<C_Polyhedron> PS; c.log << "powerset " << (which ? "BHZ03" : "BGP99") << " dim " << n << "\n";
  auto gen_box = [&]() { C_Polyhedron p(n); for (size_t j = 0; j < n; ++j) { long lo = t.range(-4, 3), hi = lo + t.range(0, 3); p.add_constraint(Variable(j) >= lo); p.add_constraint(Variable(j) <= hi); } return p; };
  PS x(n, EMPTY); int k = (int) t.range(1, 2); for (int i = 0; i < k; ++i) x.add_disjunct(gen_box());
  auto model = [&](const PS& p) { ref::Union u; for (PS::const_iterator i = p.begin(); i != p.end(); ++i) u.push_back(to_ref(i->pointset().minimized_constraints(), n)); return u; };
  int nonstationary = 0;
  for (int step = 0; step < 12 && !t.exhausted(); ++step) {
    PS z(x); int m = (int) t.range(1, 2); for (int i = 0; i < m; ++i) z.add_disjunct(gen_box());
    ref::Union mz = model(z), mx = model(x);
    PS wz(z);
    if (which == 0) wz.BGP99_extrapolation_assign(x, widen_fun_ref(&Polyhedron::H79_widening_assign), 3);
    else wz.BHZ03_widening_assign<BHRZ03_Certificate>(x, widen_fun_ref(&Polyhedron::H79_widening_assign));
    ref::Union mw = model(wz);
    c.check("powerset.upper_bound", ref::union_included(mz, mw), [&] { return std::string(which ? "BHZ03" : "BGP99") + ": the result does not cover the larger argument"; });
    if (!ref::union_included(mw, mx)) ++nonstationary;
    if (which == 1) c.check("powerset.bounded_chain", nonstationary <= 10, "BHZ03 widening: more than 10 non-stationary steps on box disjuncts in [-4,6]^n");
    x = wz;
  }
  if (nonstationary >= 2) c.nt();
}

void vf_case(Ctx& c) {
  switch (c.t.weighted({22, 14, 14, 14, 10, 16, 10})) {
  case 0: { Chain<C_Polyhedron> ch(c); ch.run(); break; } case 1: { Chain<NNC_Polyhedron> ch(c); ch.run(); break; }
  case 2: { Chain<BD_Shape<mpq_class> > ch(c); ch.run(); break; } case 3: { Chain<Octagonal_Shape<mpq_class> > ch(c); ch.run(); break; }
  case 4: { Chain<Rational_Box> ch(c); ch.run(); break; } case 5: grid_case(c); break; default: pset_case(c); }
}
VF_MAIN
