// C18: termination tests and ranking-function synthesis (termination_defs.hh).
//
//   * whenever one_affine_ranking_function_{MS,PR}[_2] returns a point mu, and for every member of
//     the mu_space returned by all_affine_ranking_functions_{MS,PR}[_2], the function
//     f(x) = mu_0 + sum mu_i x_i is bounded from below on the states from which the body executes
//     and decreases by a fixed positive amount across every transition of the relation;
//   * whenever a test answers true an affine ranking function exists;
//   * for a closed polyhedral relation  MS == PR == "an affine ranking function exists".
//
// Conventions (termination_defs.hh): single-pset form has 2n dimensions, x'_1..x'_n on 0..n-1 and
// x_1..x_n on n..2n-1; the _2 form takes pset_before over n dimensions (x on 0..n-1) and pset_after
// over 2n dimensions (same layout as the single form); the relation is
//   { (x',x) in pset_after : x in pset_before }.
// mu is a point of dimension n+1: mu_1..mu_n on 0..n-1, mu_0 on dimension n.
//
// Oracle: exact rational LP (ref/refgeom.hh), no PPL code.  Existence of a ranking function is
// decided by the Farkas formulation written from the definition (see arf_exists()).
//
// Check ids (suffix _2 = two-pset entry points):
//   verdict.sound.{ms,pr}            test true => a ranking function exists            (all pset kinds)
//   verdict.complete.{ms,pr}         a ranking function exists => test true            (closed polyhedra)
//   verdict.ms_eq_pr                 MS == PR                                          (closed polyhedra)
//   verdict.complete.other.{ms,pr}   same for NNC-with-strict / shapes / boxes         (beyond the required direction)
//   verdict.empty.{ms,pr}            empty relation => true
//   planted.term.* / planted.nonterm.*
//   one.agree.* , one_{ms,pr}.mu.dim , one_{ms,pr}.witness.{bounded,decrease}
//   all_{ms,pr}.{dim,agree,member.bounded,member.decrease,sample.valid}
//   all_{ms,pr}.{exact.missing,complete.planted,empty_relation.universe}   documented "space of ALL ranking functions"
//   quasi_ms.{intersection,decreasing,bounded}
// Two classes get their own id suffix so that they can be triaged/muted separately:
//   *.pr_2*.state_constraints_in_after           PR_2 only looks for the lower bound among pset_before's constraints
//   *_2.empty_relation.universe.before_nonempty  empty relation whose pset_before is not itself empty
// Non-trivial case: relation non-empty, not the universe, n >= 2.
#include "poly_common.hh"

const vf::Info vf_info = { "C18", "c18_termination", 2.0 };
using namespace vf;

enum { K_C = 0, K_NNC = 1, K_BDS = 2, K_OCT = 3, K_BOX = 4 };
static const char* KN[] = { "C_Polyhedron", "NNC_Polyhedron", "BD_Shape<mpq>", "Octagonal_Shape<mpq>", "Rational_Box" };
static const char* KS[] = { "C", "NNC", "BDS", "OCT", "BOX" };
enum { F_TERM = 0, F_FIX = 1, F_CYCLE = 2, F_RANDOM = 3 };
static const char* FN[] = { "planted-terminating", "planted-fixpoint", "planted-2cycle", "random" };

// ------------------------------------------------------------------ generation
static long smallc(Tape& t) { int k = t.weighted({35, 55, 10}); if (k == 0) return 0; if (k == 1) return t.range(-3, 3); return t.range(-12, 12); }

// linear expression over N dims in the syntactic class accepted by pset kind `kind'
static LE gen_shape_le(Tape& t, size_t N, int kind, bool big) {
  LE e(N);
  if (N == 0) { e.b = smallc(t); return e; }
  if (kind <= K_NNC) { for (size_t j = 0; j < N; ++j) e.a[j] = big ? gen_coef(t, true) : mpz_class(smallc(t)); }
  else {
    long a = t.pick(std::vector<long>{1, 1, 1, 2, 3});
    size_t i = (size_t) t.range(0, (long) N - 1);
    int s1 = t.chance(50) ? -1 : 1;
    bool two = kind != K_BOX && N >= 2 && t.chance(60);
    e.a[i] = s1 * a;
    if (two) { size_t j = (size_t) t.range(0, (long) N - 2); if (j >= i) ++j; int s2 = (kind == K_BDS) ? -s1 : (t.chance(50) ? -1 : 1); e.a[j] = s2 * a; }
  }
  e.b = big ? gen_coef(t, true) : mpz_class(smallc(t));
  return e;
}
// make the constraint hold on all witness points (keeps its syntactic class)
static void adjust(RCon& c, const std::vector<std::vector<long> >& wits) {
  if (wits.empty()) return;
  std::vector<mpz_class> v; for (size_t i = 0; i < wits.size(); ++i) v.push_back(c.e.eval(wits[i]));
  if (c.kind == 0) {
    bool same = true; for (size_t i = 1; i < v.size(); ++i) if (v[i] != v[0]) same = false;
    if (same) { c.e.b -= v[0]; return; }
    c.kind = 1;
  }
  mpz_class sum = 0; for (size_t i = 0; i < v.size(); ++i) sum += v[i];
  if (sum < 0) { for (size_t j = 0; j < c.e.a.size(); ++j) c.e.a[j] = -c.e.a[j]; c.e.b = -c.e.b; for (size_t i = 0; i < v.size(); ++i) v[i] = -v[i]; }
  mpz_class m = v[0]; for (size_t i = 1; i < v.size(); ++i) if (v[i] < m) m = v[i];
  if (m < 0) { c.e.b -= m; m = 0; }
  if (c.kind == 2 && m == 0) c.e.b += 1;
}

struct Case {
  size_t n = 1; int kind = K_C; bool conv2 = false; int family = F_RANDOM;
  std::vector<RCon> cons;            // over 2n dims (x' first, then x)
  std::vector<char> in_before;       // conv2: goes to pset_before (only constraints without x' terms)
  bool empty_single = false, empty_before = false, empty_after = false;   // pset built as EMPTY
  bool premin = false;
  LE f; long fk = 1;                 // planted function (n coefficients + constant), decrease >= 1/fk
  bool has_strict() const { for (size_t i = 0; i < cons.size(); ++i) if (cons[i].kind == 2) return true; return false; }
};

static Case gen_case(Ctx& c) {
  Tape& t = c.t; Case k;
  { int nn = t.weighted({30, 45, 25, 2}); k.n = nn == 3 ? 0 : (size_t) nn + 1; }   // n = 0 (rare): the relation is {()} or empty
  const size_t n = k.n, N = 2 * n;
  k.kind = t.weighted({40, 20, 14, 13, 13});
  k.conv2 = t.chance(40);
  k.family = t.weighted({35, 15, 10, 40});
  if (k.n == 0) k.family = F_RANDOM;
  const bool big = t.weighted({94, 6}) == 1;     // coefficients crossing machine words (polyhedra only)
  k.premin = t.chance(30);
  const bool strict_ok = (k.kind == K_NNC || k.kind == K_BOX);
  std::vector<std::vector<long> > wits;
  std::vector<long> w(N);
  for (size_t j = 0; j < N; ++j) w[j] = t.range(-3, 3);

  if (k.family == F_TERM) {
    k.f = LE(n);
    if (k.kind <= K_NNC) { for (size_t j = 0; j < n; ++j) k.f.a[j] = t.range(-2, 2); if (k.f.all_zero()) k.f.a[t.range(0, (long) n - 1)] = 1; }
    else k.f.a[t.range(0, (long) n - 1)] = t.chance(50) ? -1 : 1;
    mpz_class fw = 0; for (size_t j = 0; j < n; ++j) fw += k.f.a[j] * w[n + j];
    bool strict_lb = strict_ok && t.chance(20);
    k.f.b = -fw + t.range(0, 3) + (strict_lb ? 1 : 0);
    size_t jj = 0; while (k.f.a[jj] == 0) ++jj;
    RCon lb; lb.e = LE(N); for (size_t j = 0; j < n; ++j) lb.e.a[n + j] = k.f.a[j]; lb.e.b = k.f.b; lb.kind = strict_lb ? 2 : 1;
    RCon dec; dec.e = LE(N); dec.kind = 1;
    if (k.kind == K_BOX) {
      // f(x') <= -1 : a box cannot relate x and x'
      for (size_t j = 0; j < n; ++j) dec.e.a[j] = -k.f.a[j];
      dec.e.b = -k.f.b - 1;
      long s = k.f.a[jj] > 0 ? 1 : -1;              // s*x'_jj + b <= -1
      mpz_class target = -1 - k.f.b - t.range(0, 2);  // value of s*x'_jj
      w[jj] = s * target.get_si();
    }
    else {
      k.fk = t.pick(std::vector<long>{1, 1, 2, 3});
      for (size_t j = 0; j < n; ++j) { dec.e.a[n + j] = k.fk * k.f.a[j]; dec.e.a[j] = -k.fk * k.f.a[j]; }
      dec.e.b = -1;
      mpz_class fwp = 0; for (size_t j = 0; j < n; ++j) fwp += k.f.a[j] * w[j];
      mpz_class deficit = fwp - fw + 1;              // want f(w) - f(w') >= 1
      if (deficit > 0) { mpz_class aj = abs(k.f.a[jj]); mpz_class steps = (deficit + aj - 1) / aj; w[jj] -= (k.f.a[jj] > 0 ? 1 : -1) * steps.get_si(); }
    }
    k.cons.push_back(lb); k.cons.push_back(dec);
    wits.push_back(w);
  }
  else if (k.family == F_FIX) { for (size_t j = 0; j < n; ++j) w[j] = w[n + j]; wits.push_back(w); }
  else if (k.family == F_CYCLE) { std::vector<long> w2(N); for (size_t j = 0; j < n; ++j) { w2[j] = w[n + j]; w2[n + j] = w[j]; } wits.push_back(w); wits.push_back(w2); }
  else {
    int sub = t.weighted({70, 8, 22});   // witness-satisfiable / explicitly EMPTY pset / hostile
    if (sub == 0) wits.push_back(w);
    else if (sub == 1) { if (!k.conv2) k.empty_single = true; else { int e = (int) t.range(0, 2); k.empty_before = (e != 1); k.empty_after = (e != 0); } wits.push_back(w); }
    // sub == 2: no witness: constraints are not adjusted (possibly empty relation)
  }
  int m = (int) t.range(0, k.family == F_RANDOM ? 6 : 4);
  for (int i = 0; i < m; ++i) {
    RCon rc; rc.e = gen_shape_le(t, N, k.kind, big);
    if (k.family == F_CYCLE && k.kind <= K_NNC && t.chance(30)) for (size_t j = 0; j < n; ++j) rc.e.a[n + j] = rc.e.a[j];   // symmetric: equalities survive
    rc.kind = t.weighted({60, 18, strict_ok ? 22 : 0}); rc.kind = rc.kind == 0 ? 1 : rc.kind == 1 ? 0 : 2;
    adjust(rc, wits);
    k.cons.push_back(rc);
  }
  // order of insertion
  if (k.cons.size() > 1 && t.chance(50)) { size_t a = (size_t) t.range(0, (long) k.cons.size() - 1), b = (size_t) t.range(0, (long) k.cons.size() - 1); std::swap(k.cons[a], k.cons[b]); }
  k.in_before.assign(k.cons.size(), 0);
  if (k.conv2) for (size_t i = 0; i < k.cons.size(); ++i) {
    bool only_x = true; for (size_t j = 0; j < n; ++j) if (k.cons[i].e.a[j] != 0) only_x = false;
    if (only_x && t.chance(65)) k.in_before[i] = 1;
  }
  return k;
}

// ------------------------------------------------------------------ building PPL objects
template <typename PSET> static PSET build(size_t dim, const std::vector<RCon>& cs, bool mark_empty, bool premin) {
  PSET p(dim, mark_empty ? EMPTY : UNIVERSE);
  for (size_t i = 0; i < cs.size(); ++i) p.add_constraint(to_ppl(cs[i]));
  if (premin) (void) p.minimized_constraints();
  return p;
}

struct Res {
  bool tms = false, tpr = false, oms = false, opr = false;
  Generator mu_ms, mu_pr;
  C_Polyhedron sms, qdec, qbnd; NNC_Polyhedron spr;
  Res(dimension_type junk) : mu_ms(point()), mu_pr(point()), sms(junk, UNIVERSE), qdec(junk, EMPTY), qbnd(junk, UNIVERSE), spr(junk, EMPTY) {}
};
template <typename PSET> static void run1(const PSET& p, Res& r) {
  r.tms = termination_test_MS(p);
  r.tpr = termination_test_PR(p);
  r.oms = one_affine_ranking_function_MS(p, r.mu_ms);
  r.opr = one_affine_ranking_function_PR(p, r.mu_pr);
  all_affine_ranking_functions_MS(p, r.sms);
  all_affine_ranking_functions_PR(p, r.spr);
  all_affine_quasi_ranking_functions_MS(p, r.qdec, r.qbnd);
}
template <typename PSET> static void run2(const PSET& b, const PSET& a, Res& r) {
  r.tms = termination_test_MS_2(b, a);
  r.tpr = termination_test_PR_2(b, a);
  r.oms = one_affine_ranking_function_MS_2(b, a, r.mu_ms);
  r.opr = one_affine_ranking_function_PR_2(b, a, r.mu_pr);
  all_affine_ranking_functions_MS_2(b, a, r.sms);
  all_affine_ranking_functions_PR_2(b, a, r.spr);
  all_affine_quasi_ranking_functions_MS_2(b, a, r.qdec, r.qbnd);
}
template <typename PSET> static void run(const Case& k, Res& r) {
  const size_t n = k.n;
  if (!k.conv2) { PSET p = build<PSET>(2 * n, k.cons, k.empty_single, k.premin); run1(p, r); return; }
  std::vector<RCon> cb, ca;
  for (size_t i = 0; i < k.cons.size(); ++i) {
    if (k.in_before[i]) { RCon b; b.kind = k.cons[i].kind; b.e = LE(n); for (size_t j = 0; j < n; ++j) b.e.a[j] = k.cons[i].e.a[n + j]; b.e.b = k.cons[i].e.b; cb.push_back(b); }
    else ca.push_back(k.cons[i]);
  }
  PSET pb = build<PSET>(n, cb, k.empty_before, k.premin), pa = build<PSET>(2 * n, ca, k.empty_after, k.premin);
  run2(pb, pa, r);
}

// ------------------------------------------------------------------ oracle
// Quality of f(x) = mu[n] + sum_j mu[j] x_j on a NON-EMPTY closed relation Rc over (x' : 0..n-1, x : n..2n-1)
struct Validity {
  bool low_bounded = false, dec_bounded = false; Q low_inf, dec_inf;
  bool ok() const { return low_bounded && dec_bounded && dec_inf > 0; }        // the property's notion
  bool strong() const { return ok() && low_inf >= 0 && dec_inf >= 1; }         // the MS normalisation
  std::string str() const {
    std::ostringstream o; o << "inf f(x) = "; if (low_bounded) o << low_inf; else o << "-infinity";
    o << ", inf (f(x)-f(x')) = "; if (dec_bounded) o << dec_inf; else o << "-infinity"; return o.str();
  }
};
static Validity validity(const Sys& Rc, size_t n, const Vec& mu) {
  // inf g = -sup(-g): objective vectors are the negated functions
  Validity v; Vec low(2 * n, Q(0)), dec(2 * n, Q(0));
  for (size_t j = 0; j < n; ++j) { low[n + j] = -mu[j]; dec[n + j] = -mu[j]; dec[j] = mu[j]; }
  ref::Std st(Rc, true); Q s;
  int r1 = st.lp.solve(st.objective(low), s); v.low_bounded = (r1 == 1); if (r1 == 1) v.low_inf = mu[n] - s;
  int r2 = st.lp.solve(st.objective(dec), s); v.dec_bounded = (r2 == 1); if (r2 == 1) v.dec_inf = -s;
  return v;
}
// Does an affine ranking function exist for the NON-EMPTY closed relation Rc = { z : A z + b >= 0 } ?
// From the definition: exists mu, mu_0 with  f(x) >= 0  and  f(x) - f(x') - 1 >= 0  on Rc.  By the affine
// form of Farkas' lemma (Rc non-empty) an affine g is >= 0 on Rc iff g == lambda^T (A z + b) + lambda_0 with
// lambda, lambda_0 >= 0.  Unknowns y >= 0: mu+ (n+1), mu- (n+1), lambda (m), lambda_0, gamma (m), gamma_0.
static bool arf_exists(const Sys& Rc, size_t n, Vec* mu_out) {
  std::vector<Con> rows;
  for (size_t i = 0; i < Rc.cs.size(); ++i) {
    Con c = Rc.cs[i]; c.r = ref::GE; rows.push_back(c);
    if (Rc.cs[i].r == ref::EQ) { Con d = c; for (size_t j = 0; j < d.a.size(); ++j) d.a[j] = -d.a[j]; d.b = -d.b; rows.push_back(d); }
  }
  const size_t m = rows.size(), N = 2 * n;
  const size_t MUP = 0, MUM = n + 1, LAM = 2 * (n + 1), LAM0 = LAM + m, GAM = LAM0 + 1, GAM0 = GAM + m;
  ref::LP lp; lp.nv = GAM0 + 1;
  for (size_t kx = 0; kx < N; ++kx) {            // coefficient of z_kx in  f(x) == lambda^T(Az+b) + lambda_0
    Vec r(lp.nv, Q(0)); for (size_t i = 0; i < m; ++i) r[LAM + i] = rows[i].a[kx];
    if (kx >= n) { r[MUP + kx - n] = -1; r[MUM + kx - n] = 1; }
    lp.rows.push_back(r); lp.rhs.push_back(Q(0));
  }
  { Vec r(lp.nv, Q(0)); for (size_t i = 0; i < m; ++i) r[LAM + i] = rows[i].b; r[LAM0] = 1; r[MUP + n] = -1; r[MUM + n] = 1; lp.rows.push_back(r); lp.rhs.push_back(Q(0)); }
  for (size_t kx = 0; kx < N; ++kx) {            // coefficient of z_kx in  f(x) - f(x') - 1 == gamma^T(Az+b) + gamma_0
    Vec r(lp.nv, Q(0)); for (size_t i = 0; i < m; ++i) r[GAM + i] = rows[i].a[kx];
    if (kx >= n) { r[MUP + kx - n] = -1; r[MUM + kx - n] = 1; } else { r[MUP + kx] = 1; r[MUM + kx] = -1; }
    lp.rows.push_back(r); lp.rhs.push_back(Q(0));
  }
  { Vec r(lp.nv, Q(0)); for (size_t i = 0; i < m; ++i) r[GAM + i] = rows[i].b; r[GAM0] = 1; lp.rows.push_back(r); lp.rhs.push_back(Q(-1)); }
  Vec obj(lp.nv, Q(0)), sol; Q opt;
  int st = lp.solve(obj, opt, &sol);
  if (st == 0) return false;
  if (mu_out) { mu_out->assign(n + 1, Q(0)); for (size_t j = 0; j <= n; ++j) (*mu_out)[j] = sol[MUP + j] - sol[MUM + j]; }
  return true;
}

static std::string show_mu(const Vec& mu, size_t n) {
  std::ostringstream o; o << "f(x) = " << mu[n]; for (size_t j = 0; j < n; ++j) if (mu[j] != 0) o << " + " << mu[j] << "*x" << (j + 1); return o.str();
}
static Vec vadd(const Vec& a, const Q& s, const Vec& b) { Vec r(a); for (size_t i = 0; i < r.size(); ++i) r[i] += s * b[i]; return r; }
static Vec vmid(const Vec& a, const Vec& b) { Vec r(a); for (size_t i = 0; i < r.size(); ++i) r[i] = (a[i] + b[i]) / 2; return r; }

// ------------------------------------------------------------------ the case
void vf_case(Ctx& c) {
  Case k = gen_case(c);
  const size_t n = k.n;
  c.log << KN[k.kind] << (k.conv2 ? "  (pset_before, pset_after)" : "  single pset") << "  n=" << n << "  family=" << FN[k.family] << (k.premin ? "  [minimized first]" : "") << "\n";
  if (n > 0) c.log << "  dims: x'1..x'n = x0..x" << (n - 1) << ",  x1..xn = x" << n << "..x" << (2 * n - 1) << "\n";
  if (k.family == F_TERM) c.log << "  planted f(x) = " << k.f.str() << " (coefficients of x1..xn), decrease >= 1/" << k.fk << "\n";
  for (size_t i = 0; i < k.cons.size(); ++i) c.log << "  " << (k.conv2 ? (k.in_before[i] ? "[before] " : "[after]  ") : "") << str(k.cons[i]) << "\n";
  if (k.empty_single) c.log << "  pset constructed EMPTY\n";
  if (k.empty_before) c.log << "  pset_before constructed EMPTY\n";
  if (k.empty_after) c.log << "  pset_after constructed EMPTY\n";

  // reference relation
  Sys R(2 * n);
  for (size_t i = 0; i < k.cons.size(); ++i) R.add(to_refcon(k.cons[i]));
  if (k.empty_single || k.empty_before || k.empty_after) R = ref::empty_sys(2 * n);
  const bool r_empty = ref::is_empty(R);
  const Sys Rc = ref::closure(R);             // R non-empty => this is its topological closure
  const bool closed_poly = (k.kind == K_C) || (k.kind == K_NNC && !k.has_strict());
  bool trivial_rel = r_empty || ref::is_universe(R);
  // Two-pset form: does pset_before entail every constraint on x alone that the relation entails?
  // (The "alternative formalization" behind the PR_2 entry points derives the lower bound of the ranking
  // function from the constraints of pset_before only.)  Otherwise PR_2-completeness checks get the id suffix below.
  bool before_precise = true;
  if (k.conv2 && !r_empty) {
    Sys B(n);
    for (size_t i = 0; i < k.cons.size(); ++i) if (k.in_before[i]) { Con b; b.a.assign(n, Q(0)); for (size_t j = 0; j < n; ++j) b.a[j] = Q(k.cons[i].e.a[n + j]); b.b = Q(k.cons[i].e.b); b.r = k.cons[i].kind == 0 ? ref::EQ : ref::GE; B.add(b); }
    std::set<size_t> rm; for (size_t j = 0; j < n; ++j) rm.insert(j);
    Sys P = ref::remove_dims(Rc, rm);
    before_precise = ref::included(B, P);
    c.tag(before_precise ? "two-pset: pset_before = projection of the relation on x" : "two-pset: pset_after carries state constraints not entailed by pset_before");
  }
  const std::string prx = before_precise ? "" : ".state_constraints_in_after";
  // KF-C18-1: the PR tests in the two-pset form only look for the lower bound of the ranking function among the constraints
  // of pset_before: incomplete when pset_after carries state constraints that pset_before does not entail.
  const bool skip_prx = !before_precise && vf::kf("KF-C18-1");
  if (skip_prx) c.excluded("KF-C18-1");

  // oracle verdict
  bool exists = true; Vec omu;
  if (!r_empty) {
    exists = arf_exists(Rc, n, &omu);
    if (exists) { Validity v = validity(Rc, n, omu); c.check("oracle.selfcheck", v.strong(), [&] { return "harness: Farkas solution " + show_mu(omu, n) + " is not a normalised ranking function: " + v.str(); }); }
    if (k.family == F_TERM) c.check("oracle.planted_term", exists, "harness: oracle denies a planted ranking function");
    if (k.family == F_FIX || k.family == F_CYCLE) c.check("oracle.planted_nonterm", !exists, "harness: oracle finds a ranking function for a relation with a cycle");
  }

  // the library
  Res r((dimension_type) c.t.range(0, 4));
  switch (k.kind) {
    case K_C: run<C_Polyhedron>(k, r); break;
    case K_NNC: run<NNC_Polyhedron>(k, r); break;
    case K_BDS: run<BD_Shape<mpq_class> >(k, r); break;
    case K_OCT: run<Octagonal_Shape<mpq_class> >(k, r); break;
    default: run<Rational_Box>(k, r); break;
  }
  const std::string sfx = k.conv2 ? "_2" : "";
  auto ctx = [&] { std::ostringstream o; o << "  relation " << show_sys(R) << (r_empty ? " (EMPTY)" : "") << " ; " << KS[k.kind] << (k.conv2 ? " two-pset form" : " single-pset form"); return o.str(); };
  c.log << "  verdicts: test_MS=" << r.tms << " test_PR=" << r.tpr << " one_MS=" << r.oms << " one_PR=" << r.opr << " oracle(exists ARF)=" << exists << (r_empty ? " [empty relation]" : "") << "\n";

  c.tag(std::string("family ") + FN[k.family]); c.tag("n=" + std::to_string(n)); c.tag(std::string("kind ") + KS[k.kind] + sfx);
  c.tag(r_empty ? "relation empty" : exists ? "verdict terminating" : "verdict no-ARF");
  if (r_empty && !(k.empty_single || k.empty_before || k.empty_after)) c.tag(k.conv2 ? "relation empty by infeasible constraints (two-pset)" : "relation empty by infeasible constraints (single)");
  if (k.kind == K_NNC && k.has_strict()) c.tag("NNC with strict constraints");
  // non-trivial: non-empty, non-universe relation over n >= 2 variables
  if (!trivial_rel && n >= 2) c.nt();

  // --- (3) verdicts
  if (r_empty && k.has_strict()) c.tag("relation empty only thanks to strict constraints (tests work on the closure: no verdict demanded)");
  else if (r_empty) {
    c.check("verdict.empty.ms" + sfx, r.tms, [&] { return "termination_test_MS" + sfx + " answers false on an empty relation;" + ctx(); });
    c.check("verdict.empty.pr" + sfx, r.tpr, [&] { return "termination_test_PR" + sfx + " answers false on an empty relation;" + ctx(); });
  }
  else {
    // soundness (all pset kinds): true => a ranking function exists
    c.check("verdict.sound.ms" + sfx, !r.tms || exists, [&] { return "termination_test_MS" + sfx + " answers true but no affine ranking function exists;" + ctx(); });
    c.check("verdict.sound.pr" + sfx, !r.tpr || exists, [&] { return "termination_test_PR" + sfx + " answers true but no affine ranking function exists;" + ctx(); });
    if (closed_poly) {
      c.check("verdict.complete.ms" + sfx, r.tms || !exists, [&] { return "termination_test_MS" + sfx + " answers false although " + show_mu(omu, n) + " is a ranking function;" + ctx(); });
      if (!skip_prx) c.check("verdict.complete.pr" + sfx + prx, r.tpr || !exists, [&] { return "termination_test_PR" + sfx + " answers false although " + show_mu(omu, n) + " is a ranking function;" + ctx(); });
      if (!skip_prx) c.check("verdict.ms_eq_pr" + sfx + prx, r.tms == r.tpr, [&] { return "MS and PR disagree;" + ctx(); });
    }
    else {
      // beyond the required one-directional statement (separate ids)
      c.check(std::string("verdict.complete.other.ms") + sfx, r.tms || !exists, [&] { return "termination_test_MS" + sfx + " (" + KS[k.kind] + ") answers false although " + show_mu(omu, n) + " is a ranking function;" + ctx(); });
      if (!skip_prx) c.check(std::string("verdict.complete.other.pr") + sfx + prx, r.tpr || !exists, [&] { return "termination_test_PR" + sfx + " (" + KS[k.kind] + ") answers false although " + show_mu(omu, n) + " is a ranking function;" + ctx(); });
    }
    if (k.family == F_TERM && closed_poly) {
      c.check("planted.term.ms" + sfx, r.tms, [&] { return "planted terminating loop not recognised by MS;" + ctx(); });
      if (!skip_prx) c.check("planted.term.pr" + sfx + prx, r.tpr, [&] { return "planted terminating loop not recognised by PR;" + ctx(); });
    }
    if (k.family == F_FIX || k.family == F_CYCLE) {
      c.check("planted.nonterm.ms" + sfx, !r.tms, [&] { return "relation with a cycle accepted by MS;" + ctx(); });
      c.check("planted.nonterm.pr" + sfx, !r.tpr, [&] { return "relation with a cycle accepted by PR;" + ctx(); });
    }
  }
  c.check("one.agree.ms" + sfx, r.oms == r.tms, [&] { std::ostringstream o; o << "one_affine_ranking_function_MS" << sfx << " returns " << r.oms << " but termination_test_MS" << sfx << " returns " << r.tms << ";" << ctx(); return o.str(); });
  c.check("one.agree.pr" + sfx, r.opr == r.tpr, [&] { std::ostringstream o; o << "one_affine_ranking_function_PR" << sfx << " returns " << r.opr << " but termination_test_PR" << sfx << " returns " << r.tpr << ";" << ctx(); return o.str(); });

  // --- (1) witnesses
  for (int which = 0; which < 2; ++which) {
    const bool got = which ? r.opr : r.oms; if (!got) continue;
    const Generator& g = which ? r.mu_pr : r.mu_ms;
    const std::string nm = std::string(which ? "one_pr" : "one_ms") + sfx;
    c.check(nm + ".mu.is_point", g.is_point(), "mu is not a point");
    c.check(nm + ".mu.dim", g.space_dimension() == n + 1, [&] { std::ostringstream o; o << "mu has space dimension " << g.space_dimension() << ", documented n+1 = " << (n + 1) << ";" << ctx(); return o.str(); });
    if (r_empty || g.space_dimension() > n + 1) continue;
    Vec mu = gen_vec(g, n + 1);
    Validity v = validity(Rc, n, mu);
    c.check(nm + ".witness.bounded", v.low_bounded, [&] { return nm + " returned " + show_mu(mu, n) + " which is unbounded from below on the source states;" + ctx(); });
    c.check(nm + ".witness.decrease", v.dec_bounded && v.dec_inf > 0, [&] { return nm + " returned " + show_mu(mu, n) + " which does not decrease by a positive amount: " + v.str() + ";" + ctx(); });
    if (!which) c.tag(v.strong() ? "one_ms witness normalised (f>=0, decrease>=1)" : "one_ms witness valid, not normalised");
  }

  // --- (2) spaces
  for (int which = 0; which < 2; ++which) {
    const std::string nm = std::string(which ? "all_pr" : "all_ms") + sfx;
    const dimension_type sd = which ? r.spr.space_dimension() : r.sms.space_dimension();
    c.check(nm + ".dim", sd == n + 1, [&] { std::ostringstream o; o << "mu_space has dimension " << sd << ", documented n+1 = " << (n + 1) << ";" << ctx(); return o.str(); });
    if (sd != n + 1) continue;
    ref::Gens gs = which ? to_ref(r.spr.generators(), n + 1) : to_ref(r.sms.generators(), n + 1);
    Sys sc = which ? to_ref(r.spr.constraints(), n + 1) : to_ref(r.sms.constraints(), n + 1);
    const bool nonempty = !gs.points.empty();
    c.check(nm + ".desc_consistent", ref::is_empty(sc) == !nonempty, "constraints and generators of mu_space disagree on emptiness");
    const bool tv = which ? r.tpr : r.tms;
    c.check(nm + ".agree", nonempty == tv, [&] { std::ostringstream o; o << nm << ": mu_space is " << (nonempty ? "non-empty" : "empty") << " but the termination test returns " << tv << ";" << ctx(); return o.str(); });
    if (r_empty) {
      // every function is a ranking function of the empty relation (the templates return the universe for an empty pset)
      // (the templates special-case pset.is_empty() / pset_before.is_empty() only)
      const bool documented_path = !k.conv2 || k.empty_before;
      if (!documented_path) { c.tag("empty relation with a non-empty pset_before: mu_space need not be the universe (not a C18 statement)"); continue; }
      c.check(nm + ".empty_relation.universe", ref::equal(sc, Sys(n + 1)), [&] { return nm + ": relation is empty but mu_space is " + show_sys(sc) + ";" + ctx(); });
      continue;
    }
    if (!nonempty) continue;
    // members of the space: points, midpoints, point/closure-point midpoints, moves along rays and lines
    std::vector<std::pair<Vec, std::string> > cand;
    for (size_t i = 0; i < gs.points.size() && i < 8; ++i) cand.push_back(std::make_pair(gs.points[i], "generator point"));
    for (size_t i = 0; i < gs.points.size() && i < 5; ++i) for (size_t j = i + 1; j < gs.points.size() && j < 5; ++j) cand.push_back(std::make_pair(vmid(gs.points[i], gs.points[j]), "midpoint of two points"));
    for (size_t i = 0; i < gs.cpoints.size() && i < 4; ++i) cand.push_back(std::make_pair(vmid(gs.points[0], gs.cpoints[i]), "midpoint of a point and a closure point"));
    Q step = mkq(mpz_class(c.t.pick(std::vector<long>{1, 3, 1, 7})), mpz_class(c.t.pick(std::vector<long>{1, 1, 2, 3})));
    for (size_t i = 0; i < gs.rays.size() && i < 6; ++i) { cand.push_back(std::make_pair(vadd(gs.points[0], step, gs.rays[i]), "point + step*ray")); cand.push_back(std::make_pair(vadd(gs.points.back(), step * 5, gs.rays[i]), "point + step*ray")); }
    for (size_t i = 0; i < gs.lines.size() && i < 4; ++i) { cand.push_back(std::make_pair(vadd(gs.points[0], step, gs.lines[i]), "point + step*line")); cand.push_back(std::make_pair(vadd(gs.points[0], -step, gs.lines[i]), "point - step*line")); }
    { Vec s = gs.points[0]; for (size_t i = 0; i < gs.rays.size(); ++i) s = vadd(s, step, gs.rays[i]); if (!gs.rays.empty()) cand.push_back(std::make_pair(s, "point + step*(sum of rays)")); }
    for (size_t i = 0; i < cand.size(); ++i) {
      const Vec& mu = cand[i].first;
      c.check(nm + ".member.in_space", sc.sat(mu), [&] { return nm + ": harness/PPL: candidate " + cand[i].second + " " + show_mu(mu, n) + " does not satisfy the constraints of mu_space " + show_sys(sc); });
      Validity v = validity(Rc, n, mu);
      c.check(nm + ".member.bounded", v.low_bounded, [&] { return nm + ": member (" + cand[i].second + ") " + show_mu(mu, n) + " of mu_space is unbounded from below on the source states; mu_space " + show_sys(sc) + ";" + ctx(); });
      c.check(nm + ".member.decrease", v.dec_bounded && v.dec_inf > 0, [&] { return nm + ": member (" + cand[i].second + ") " + show_mu(mu, n) + " of mu_space does not decrease by a positive amount: " + v.str() + "; mu_space " + show_sys(sc) + ";" + ctx(); });
    }
    c.tag(nm + " members checked");
    // sampled integer functions: membership vs validity
    for (int rep = 0; rep < 3; ++rep) {
      Vec mu(n + 1);
      if (rep == 0 && exists) mu = omu; else for (size_t j = 0; j <= n; ++j) mu[j] = Q(c.t.range(-3, 3));
      Validity v = validity(Rc, n, mu);
      bool in = sc.sat(mu);
      c.check(nm + ".sample.valid", !in || v.ok(), [&] { return nm + ": " + show_mu(mu, n) + " lies in mu_space but is not a ranking function: " + v.str() + "; mu_space " + show_sys(sc) + ";" + ctx(); });
      // documented "space of ALL affine ranking functions" (beyond C18): MS normalises f >= 0, decrease >= 1
      if (closed_poly && !(skip_prx && which)) c.check(nm + ".exact.missing" + (which ? prx : std::string()), in || !(which ? v.ok() : v.strong()), [&] { return nm + ": " + show_mu(mu, n) + " is a ranking function (" + v.str() + ") but is not in mu_space " + show_sys(sc) + ";" + ctx(); });
    }
    if (k.family == F_TERM) {
      Vec mu(n + 1); for (size_t j = 0; j < n; ++j) mu[j] = Q(k.f.a[j]) * Q(k.fk); mu[n] = Q(k.f.b) * Q(k.fk);
      if (!(skip_prx && which)) c.check(nm + ".complete.planted" + (which ? prx : std::string()), sc.sat(mu), [&] { return nm + ": planted function " + show_mu(mu, n) + " missing from mu_space " + show_sys(sc) + ";" + ctx(); });
    }
  }

  // --- quasi ranking function spaces (MS): decreasing / bounded halves
  if (r.qdec.space_dimension() == n + 1 && r.qbnd.space_dimension() == n + 1 && r.sms.space_dimension() == n + 1) {
    Sys sd = to_ref(r.qdec.constraints(), n + 1), sb = to_ref(r.qbnd.constraints(), n + 1), sm = to_ref(r.sms.constraints(), n + 1);
    c.check("quasi_ms" + sfx + ".intersection", ref::equal(ref::meet(sd, sb), sm), [&] { return "decreasing_mu_space " + show_sys(sd) + " meet bounded_mu_space " + show_sys(sb) + " differs from mu_space " + show_sys(sm) + ";" + ctx(); });
    if (!r_empty) {
      ref::Gens gd = to_ref(r.qdec.generators(), n + 1), gb = to_ref(r.qbnd.generators(), n + 1);
      for (size_t i = 0; i < gd.points.size() && i < 6; ++i) { Validity v = validity(Rc, n, gd.points[i]); c.check("quasi_ms" + sfx + ".decreasing", v.dec_bounded && v.dec_inf > 0, [&] { return "point " + show_mu(gd.points[i], n) + " of decreasing_mu_space does not decrease: " + v.str() + ";" + ctx(); }); }
      for (size_t i = 0; i < gb.points.size() && i < 6; ++i) { Validity v = validity(Rc, n, gb.points[i]); c.check("quasi_ms" + sfx + ".bounded", v.low_bounded, [&] { return "point " + show_mu(gb.points[i], n) + " of bounded_mu_space is unbounded from below;" + ctx(); }); }
    }
  }
  else c.check("quasi_ms" + sfx + ".dim", false, "quasi ranking function spaces do not have dimension n+1");
}

VF_MAIN
