// C11 (part A, numeric kernel): every checked-number operation stores a value and returns a
// Result code whose relation between the stored value S and the exact mathematical result E is
// true, honours directed rounding, and classifies overflow / infinities / undefined results.
//
// Reading of Result_defs.hh used here: the relation bits relate the EXACT result to the STORED one:
//   V_EQ: E == S      V_LT: E < S (stored was rounded up)      V_GT: E > S (stored was rounded down)
//   V_LT_INF = V_LT|V_OVERFLOW  : E < finite minimum, minimum stored (negative overflow, rounding up)
//   V_GT_SUP = V_GT|V_OVERFLOW  : E > finite maximum, maximum stored (positive overflow, rounding down)
//   V_LT_PLUS_INFINITY / V_GT_MINUS_INFINITY : E finite but beyond the range, infinity stored
//   V_EQ_PLUS_INFINITY / V_EQ_MINUS_INFINITY : E is that infinity
//   V_NAN (+ cause code)        : E undefined;     V_UNREPRESENTABLE : nothing was stored
//
// The oracle uses mpz_class / mpq_class only.  Operands are decoded from their bit patterns
// (never through PPL and never through floating point arithmetic).
//
// Generator rules (preconditions, learnt the hard way):
//  * the finite range of an extended integer is the policy's (raw extremes encode NaN / infinities);
//  * a policy flag that is OFF (check_div_zero, check_inf_add_inf, check_sqrt_neg, check_inf_mod,
//    check_fpu_nan_result for floats ...) is a precondition on the caller: such operand
//    combinations are not generated for that policy;
//  * ROUND_NOT_NEEDED only when E is representable in the destination;
//  * directed rounding is never required to be the nearest value;
//  * float 2exp operations need exp < 64; smod_2exp on native integers needs exp >= 1 (shift UB).
#include "ppl-config.h"
#include "ppl_include_files.hh"
#include "common.hh"
#include <climits>
#include <csetjmp>
#include <cfenv>
#include <type_traits>

using namespace Parma_Polyhedra_Library;
typedef mpz_class Z;
typedef mpq_class Q;

const vf::Info vf_info = { "C11", "c11_num", 1.0 };

// =====================================================================================
// exact extended values
// =====================================================================================
struct XV {
  int k;      // 0 finite, +1 +inf, -1 -inf, 2 NaN / undefined
  bool sq;    // finite only: the value is sqrt(v) with v > 0 not a perfect square
  Q v;
  XV() : k(0), sq(false), v(0) {}
};
static XV fin(const Q& q) { XV x; x.v = q; return x; }
static XV xinf(int s) { XV x; x.k = s < 0 ? -1 : 1; return x; }
static XV xnan() { XV x; x.k = 2; return x; }
static int xsgn(const XV& a) { return a.k == 0 ? (a.sq ? 1 : sgn(a.v)) : a.k; }
// compare two non-NaN extended values
static int sg3(int c) { return c < 0 ? -1 : c > 0 ? 1 : 0; }
static int xcmp(const XV& a, const XV& b) {
  if (a.k != 0 || b.k != 0) { int x = a.k, y = b.k; return x < y ? -1 : x > y ? 1 : 0; }
  if (!a.sq && !b.sq) return sg3(cmp(a.v, b.v));
  if (a.sq && b.sq) return sg3(cmp(a.v, b.v));
  if (a.sq) { if (sgn(b.v) <= 0) return 1; Q s = b.v * b.v; return sg3(cmp(a.v, s)); }
  return -xcmp(b, a);
}
static std::string qstr(const Q& q) {
  std::string s = q.get_str();
  if (s.size() <= 90) return s;
  std::ostringstream o; o << (sgn(q) < 0 ? "-" : "") << "[num~2^" << mpz_sizeinbase(q.get_num().get_mpz_t(), 2) << " / den~2^" << mpz_sizeinbase(q.get_den().get_mpz_t(), 2) << " : " << s.substr(0, 30) << "...]";
  return o.str();
}
static std::string show(const XV& a) {
  if (a.k == 2) return "NaN"; if (a.k == 1) return "+inf"; if (a.k == -1) return "-inf";
  return a.sq ? "sqrt(" + qstr(a.v) + ")" : qstr(a.v);
}
static Q pow2(long e) { Q r(1); if (e >= 0) mpq_mul_2exp(r.get_mpq_t(), r.get_mpq_t(), e); else mpq_div_2exp(r.get_mpq_t(), r.get_mpq_t(), -e); return r; }
static Z zfloor(const Q& q) { Z r; mpz_fdiv_q(r.get_mpz_t(), q.get_num().get_mpz_t(), q.get_den().get_mpz_t()); return r; }
static Z zceil(const Q& q) { Z r; mpz_cdiv_q(r.get_mpz_t(), q.get_num().get_mpz_t(), q.get_den().get_mpz_t()); return r; }
static Z ztrunc(const Q& q) { Z r; mpz_tdiv_q(r.get_mpz_t(), q.get_num().get_mpz_t(), q.get_den().get_mpz_t()); return r; }
static XV mk_sqrt(const Q& q) {            // q >= 0
  if (sgn(q) == 0) return fin(0);
  if (mpz_perfect_square_p(q.get_num().get_mpz_t()) && mpz_perfect_square_p(q.get_den().get_mpz_t())) {
    Z a, b; mpz_sqrt(a.get_mpz_t(), q.get_num().get_mpz_t()); mpz_sqrt(b.get_mpz_t(), q.get_den().get_mpz_t());
    Q r(a, b); r.canonicalize(); return fin(r);
  }
  XV x; x.sq = true; x.v = q; return x;
}

// =====================================================================================
// types and policies
// =====================================================================================
struct NatP {};                                           // plain native value (To: Check_Overflow_Policy, From: transparent)
typedef WRD_Extended_Number_Policy WP;                     // production extended policy (all checks off)
typedef Debug_WRD_Extended_Number_Policy DP;               // extended policy with every check on
// Bounded_Integer_Coefficient_Policy only exists in checked-integer configurations of the library:
// this is a field-by-field copy of it (bounded integer coefficients: no NaN, no infinities).
struct BP {
  const_bool_nodef(check_overflow, true);
  const_bool_nodef(check_inf_add_inf, false);
  const_bool_nodef(check_inf_sub_inf, false);
  const_bool_nodef(check_inf_mul_zero, false);
  const_bool_nodef(check_div_zero, false);
  const_bool_nodef(check_inf_div_inf, false);
  const_bool_nodef(check_inf_mod, false);
  const_bool_nodef(check_sqrt_neg, false);
  const_bool_nodef(has_nan, false);
  const_bool_nodef(has_infinity, false);
  const_bool_nodef(convertible, true);
  const_bool_nodef(check_fpu_inexact, false);
  const_bool_nodef(check_fpu_nan_result, true);
  static const Rounding_Dir ROUND_DEFAULT_CONSTRUCTOR = ROUND_NATIVE;
  static const Rounding_Dir ROUND_DEFAULT_OPERATOR = ROUND_NATIVE;
  static const Rounding_Dir ROUND_DEFAULT_FUNCTION = ROUND_NATIVE;
  static const Rounding_Dir ROUND_DEFAULT_INPUT = ROUND_NATIVE;
  static const Rounding_Dir ROUND_DEFAULT_OUTPUT = ROUND_NATIVE;
  static void handle_result(Result) {}
};

template <class T, class P> struct NumOf {
  typedef Checked_Number<T, P> type; typedef P pol;
  static T& raw(type& x) { return x.raw_value(); }
  static const T& raw(const type& x) { return x.raw_value(); }
};
template <class T> struct NumOf<T, NatP> {
  typedef T type; typedef Check_Overflow_Policy<T> pol;
  static T& raw(T& x) { return x; }
  static const T& raw(const T& x) { return x; }
};
template <class P> struct PName;
template <> struct PName<NatP> { static const char* n() { return "native"; } };
template <> struct PName<WP> { static const char* n() { return "wrd"; } };
template <> struct PName<DP> { static const char* n() { return "dbg"; } };
template <> struct PName<BP> { static const char* n() { return "bnd"; } };

// cat: 0 integer, 1 float, 2 mpz, 3 mpq
template <class T> struct TT;
#define VF_INT(T, NAME) template <> struct TT<T> { static const int cat = 0; static const char* name() { return NAME; } };
VF_INT(int8_t, "int8") VF_INT(uint8_t, "uint8") VF_INT(int16_t, "int16") VF_INT(int32_t, "int32")
VF_INT(int64_t, "int64") VF_INT(uint32_t, "uint32") VF_INT(uint64_t, "uint64")
template <> struct TT<float> { static const int cat = 1; static const char* name() { return "float"; } };
template <> struct TT<double> { static const int cat = 1; static const char* name() { return "double"; } };
template <> struct TT<long double> { static const int cat = 1; static const char* name() { return "ldouble"; } };
template <> struct TT<mpz_class> { static const int cat = 2; static const char* name() { return "mpz"; } };
template <> struct TT<mpq_class> { static const int cat = 3; static const char* name() { return "mpq"; } };
static const char* const CATN[4] = { "int", "float", "mpz", "mpq" };

template <class T> static Z toZ(T v) { if (std::numeric_limits<T>::is_signed) return Z((long) v); return Z((unsigned long) v); }
template <class T> static T fromZ(const Z& z) { if (std::numeric_limits<T>::is_signed) return (T) z.get_si(); return (T) z.get_ui(); }

// ---- integer encodings (independent re-statement of the documented layout)
template <class T, class P> struct IL {
  typedef typename NumOf<T, P>::pol PL;
  static const bool S = std::numeric_limits<T>::is_signed;
  static T tmin() { return std::numeric_limits<T>::min(); }
  static T tmax() { return std::numeric_limits<T>::max(); }
  static const int HI = PL::has_infinity ? 1 : 0;
  static const int HN = PL::has_nan ? 1 : 0;
  static T lo() { return S ? T(tmin() + HI + HN) : T(0); }
  static T hi() { return S ? T(tmax() - HI) : T(tmax() - 2 * HI - HN); }
  static T pinf() { return tmax(); }
  static T minf() { return S ? tmin() : T(tmax() - 1); }
  static T nan() { return S ? T(tmin() + HI) : T(tmax() - 2 * HI); }
};

// ---- floating point bit patterns
template <class T> struct FB;
template <> struct FB<float> {
  static const int p = 24, emax = 127, eminsub = -149, efield = 255, fbits = 23;
  static float make(bool s, unsigned e, uint64_t f) { uint32_t b = (s ? 0x80000000u : 0u) | ((uint32_t) (e & 0xff) << 23) | (uint32_t) (f & 0x7fffffu); float x; std::memcpy(&x, &b, 4); return x; }
  static void split(float x, bool& s, unsigned& e, uint64_t& f) { uint32_t b; std::memcpy(&b, &x, 4); s = b >> 31; e = (b >> 23) & 0xff; f = b & 0x7fffffu; }
};
template <> struct FB<double> {
  static const int p = 53, emax = 1023, eminsub = -1074, efield = 2047, fbits = 52;
  static double make(bool s, unsigned e, uint64_t f) { uint64_t b = (s ? (1ULL << 63) : 0ULL) | ((uint64_t) (e & 0x7ff) << 52) | (f & ((1ULL << 52) - 1)); double x; std::memcpy(&x, &b, 8); return x; }
  static void split(double x, bool& s, unsigned& e, uint64_t& f) { uint64_t b; std::memcpy(&b, &x, 8); s = b >> 63; e = (b >> 52) & 0x7ff; f = b & ((1ULL << 52) - 1); }
};
template <> struct FB<long double> {       // x87 80-bit extended: explicit integer bit
  static const int p = 64, emax = 16383, eminsub = -16445, efield = 32767, fbits = 63;
  static long double make(bool s, unsigned e, uint64_t f) {
    uint64_t m = (f & ((1ULL << 63) - 1)) | (e ? (1ULL << 63) : 0ULL);
    if (e == 32767 && (f & ((1ULL << 63) - 1)) != 0) m |= (1ULL << 62);        // quiet NaN
    uint16_t se = (uint16_t) ((s ? 0x8000 : 0) | (e & 0x7fff));
    long double x = 0; unsigned char buf[sizeof(long double)]; std::memset(buf, 0, sizeof buf);
    std::memcpy(buf, &m, 8); std::memcpy(buf + 8, &se, 2); std::memcpy(&x, buf, sizeof buf); return x;
  }
  static void split(long double x, bool& s, unsigned& e, uint64_t& f) {
    unsigned char buf[sizeof(long double)]; std::memcpy(buf, &x, sizeof buf); uint64_t m; uint16_t se; std::memcpy(&m, buf, 8); std::memcpy(&se, buf + 8, 2);
    s = se >> 15; e = se & 0x7fff; f = m & ((1ULL << 63) - 1);
  }
};
template <class T> static XV fdecode(T x) {
  bool s; unsigned e; uint64_t f; FB<T>::split(x, s, e, f);
  if ((int) e == FB<T>::efield) return f ? xnan() : xinf(s ? -1 : 1);
  Z m((unsigned long) f); if (e) { Z one(1); m += (one << FB<T>::fbits); }
  long ex = (long) (e ? e : 1) - FB<T>::emax - FB<T>::fbits;
  Q v(m); v *= pow2(ex); if (s) v = -v; return fin(v);
}
// is the rational q representable in a binary format with p significant bits?
static bool float_repr(const Q& q, int p, int emax, int eminsub) {
  if (sgn(q) == 0) return true;
  const Z& d = q.get_den(); if (mpz_popcount(d.get_mpz_t()) != 1) return false;
  long dexp = (long) mpz_sizeinbase(d.get_mpz_t(), 2) - 1;
  Z n = abs(q.get_num()); long tz = (long) mpz_scan1(n.get_mpz_t(), 0);
  long nb = (long) mpz_sizeinbase(n.get_mpz_t(), 2) - tz;     // significant bits
  long e = tz - dexp;                                         // exponent of the lowest set bit
  return nb <= p && e + nb - 1 <= emax && e >= eminsub;
}

// ---- destination description
struct Dest {
  int cat; bool has_nan, has_inf, bounded; Q lo, hi; int p, emax, eminsub; std::string tname, pname;
  // policy flags that are preconditions when off
  bool f_div_zero, f_inf_add_inf, f_inf_sub_inf, f_inf_mul_zero, f_inf_div_inf, f_inf_mod, f_sqrt_neg, f_nan_ok;
};
template <class T, class P> static Dest make_dest() {
  typedef typename NumOf<T, P>::pol PL; Dest d;
  d.cat = TT<T>::cat; d.has_nan = PL::has_nan; d.has_inf = PL::has_infinity; d.bounded = false; d.p = d.emax = d.eminsub = 0;
  d.tname = TT<T>::name(); d.pname = PName<P>::n();
  if constexpr (TT<T>::cat == 0) { d.bounded = true; d.lo = Q(toZ(IL<T, P>::lo())); d.hi = Q(toZ(IL<T, P>::hi())); }
  if constexpr (TT<T>::cat == 1) {
    d.bounded = true; d.p = FB<T>::p; d.emax = FB<T>::emax; d.eminsub = FB<T>::eminsub;
    Z m(1); m <<= FB<T>::p; m -= 1; d.hi = Q(m) * pow2(FB<T>::emax - FB<T>::p + 1); d.lo = -d.hi;
  }
  d.f_div_zero = PL::check_div_zero; d.f_inf_add_inf = PL::check_inf_add_inf; d.f_inf_sub_inf = PL::check_inf_sub_inf;
  d.f_inf_mul_zero = PL::check_inf_mul_zero; d.f_inf_div_inf = PL::check_inf_div_inf; d.f_inf_mod = PL::check_inf_mod;
  d.f_sqrt_neg = PL::check_sqrt_neg;
  d.f_nan_ok = (TT<T>::cat != 1) || PL::check_fpu_nan_result;      // floats: NaN operands only when NaN results are checked
  return d;
}
template <class T, class P> static const Dest& dest() { static const Dest d = make_dest<T, P>(); return d; }

static bool representable(const Dest& d, const XV& E) {
  if (E.k == 2) return false; if (E.k != 0) return d.has_inf; if (E.sq) return false;
  switch (d.cat) {
  case 0: return E.v.get_den() == 1 && E.v >= d.lo && E.v <= d.hi;
  case 1: return float_repr(E.v, d.p, d.emax, d.eminsub);
  case 2: return E.v.get_den() == 1;
  default: return true;
  }
}

// ---- decoding a stored number (independent of PPL's classification)
template <class T, class P> static XV decode(const typename NumOf<T, P>::type& n) {
  typedef typename NumOf<T, P>::pol PL; const T& r = NumOf<T, P>::raw(n);
  if constexpr (TT<T>::cat == 0) {
    if (PL::has_infinity && r == IL<T, P>::pinf()) return xinf(1);
    if (PL::has_infinity && r == IL<T, P>::minf()) return xinf(-1);
    if (PL::has_nan && r == IL<T, P>::nan()) return xnan();
    return fin(Q(toZ(r)));
  }
  else if constexpr (TT<T>::cat == 1) return fdecode(r);
  else if constexpr (TT<T>::cat == 2) {
    int s = r.get_mpz_t()->_mp_size;
    if (PL::has_infinity && s == INT_MAX) return xinf(1);
    if (PL::has_infinity && s == INT_MIN) return xinf(-1);
    if (PL::has_nan && s == INT_MIN + 1) return xnan();
    return fin(Q(r));
  }
  else {
    if ((PL::has_infinity || PL::has_nan) && sgn(r.get_den()) == 0) { int s = sgn(r.get_num()); return s == 0 ? xnan() : xinf(s); }
    return fin(r);
  }
}
template <class T, class P> static void set_special(typename NumOf<T, P>::type& n, int k) {
  if constexpr (TT<T>::cat == 0) NumOf<T, P>::raw(n) = (k == 1 ? IL<T, P>::pinf() : k == -1 ? IL<T, P>::minf() : IL<T, P>::nan());
  else if constexpr (TT<T>::cat == 1) NumOf<T, P>::raw(n) = FB<T>::make(k == -1, FB<T>::efield, k == 2 ? 1 : 0);
  else { if (k == 1) assign_r(n, PLUS_INFINITY, ROUND_IGNORE); else if (k == -1) assign_r(n, MINUS_INFINITY, ROUND_IGNORE); else assign_r(n, NOT_A_NUMBER, ROUND_IGNORE); }
}

// =====================================================================================
// generators (boundary biased, constructive)
// =====================================================================================
static Z gen_z(vf::Tape& t) {
  static const int KS[] = { 7, 8, 15, 16, 24, 31, 32, 53, 63, 64, 65, 127, 128 };
  Z r;
  switch (t.weighted({ 4, 4, 4, 3, 2 })) {
  case 0: r = t.range(-5, 5); break;
  case 1: { int k = KS[t.range(0, 12)]; r = 1; r <<= k; r += t.range(-2, 2); if (t.chance(50)) r = -r; break; }
  case 2: { int n = (int) t.range(1, 3); r = 0; for (int i = 0; i < n; ++i) { r <<= 32; r += (unsigned long) t.range(0, 0xffffffffL); } if (t.chance(50)) r = -r; break; }
  case 3: r = t.range(-1000, 1000); break;
  default: { int k = (int) t.range(0, 300); r = 1; r <<= k; r += t.range(-1, 1); if (t.chance(50)) r = -r; break; }
  }
  return r;
}
static Q gen_q(vf::Tape& t) {
  switch (t.weighted({ 3, 4, 3, 3 })) {
  case 0: return Q(gen_z(t));
  case 1: { Z n = gen_z(t); Z d; switch (t.weighted({ 3, 2, 2 })) { case 0: d = t.range(1, 9); break; case 1: d = 1; d <<= t.range(1, 80); break; default: d = abs(gen_z(t)) + 1; } Q q(n, d); q.canonicalize(); return q; }
  case 2: {   // dyadic values next to floating point format boundaries
    static const long ES[] = { -16446, -16445, -16444, -1075, -1074, -1073, -150, -149, -148, -127, -126, 0, 23, 24, 52, 53, 63, 64, 104, 127, 128, 971, 1023, 1024, 16320, 16383, 16384 };
    static const int MS[] = { 1, 2, 24, 25, 53, 54, 64, 65 };
    long e = ES[t.range(0, 26)]; int mb = MS[t.range(0, 7)]; Z m(1); m <<= mb; m += t.range(-1, 1); if (t.chance(30)) m = 2 * t.range(0, 3) + 1;
    Q q(m); q *= pow2(e - (t.chance(50) ? mb : 0)); if (t.chance(50)) q = -q; return q;
  }
  default: { Q q(t.range(-40, 40), t.range(1, 12)); q.canonicalize(); return q; }
  }
}
template <class T, class P> static T gen_int_raw(vf::Tape& t, bool special, int& sp) {
  const Z lo = toZ(IL<T, P>::lo()), hi = toZ(IL<T, P>::hi()); Z v; sp = 0;
  const bool can = special && (IL<T, P>::HI || IL<T, P>::HN);
  switch (t.weighted({ 4, 3, 3, 4, 4, 3, can ? 2 : 0 })) {
  case 0: v = t.range(-3, 3); break;
  case 1: v = lo + t.range(0, 3); break;
  case 2: v = hi - t.range(0, 3); break;
  case 3: { v = 1; v <<= t.range(0, (long) sizeof(T) * 8); v += t.range(-1, 1); if (t.chance(50)) v = -v; break; }
  case 4: { v = (unsigned long) t.range(0, 0xffffffffL); v <<= 32; v += (unsigned long) t.range(0, 0xffffffffL); Z span = hi - lo + 1; mpz_fdiv_r(v.get_mpz_t(), v.get_mpz_t(), span.get_mpz_t()); v += lo; break; }
  case 5: v = t.range(-300, 300); break;
  default: { int w = t.weighted({ IL<T, P>::HI, IL<T, P>::HI, IL<T, P>::HN }); sp = w == 0 ? 1 : w == 1 ? -1 : 2; return w == 0 ? IL<T, P>::pinf() : w == 1 ? IL<T, P>::minf() : IL<T, P>::nan(); }
  }
  if (v < lo) v = lo; if (v > hi) v = hi;
  return fromZ<T>(v);
}
template <class T> static T gen_float_raw(vf::Tape& t, bool inf_ok, bool nan_ok) {
  typedef FB<T> F; const unsigned bias = F::emax; const uint64_t fmask = (F::fbits == 63 ? ((1ULL << 63) - 1) : ((1ULL << F::fbits) - 1));
  switch (t.weighted({ 3, 9, 3 })) {
  case 0: { long k = t.range(-8, 8); T x = (T) k; if (t.chance(40)) x = x / 2; if (t.chance(10) && k == 0) x = -x; return x; }
  case 2: { Z z = gen_z(t); if (mpz_sizeinbase(z.get_mpz_t(), 2) > 64) z >>= (mpz_sizeinbase(z.get_mpz_t(), 2) - 64); return sgn(z) < 0 ? -(T) (unsigned long) Z(-z).get_ui() : (T) (unsigned long) z.get_ui(); }
  default: break;
  }
  bool s = t.chance(50); unsigned e; uint64_t f;
  static const int IB[] = { 7, 8, 15, 16, 31, 32, 63, 64 };
  switch (t.weighted({ 5, 3, 2, 3, 3, 3, 3, 2 })) {
  case 0: e = bias + (unsigned) t.range(0, 6) - 3; break;
  case 1: e = 0; break;
  case 2: e = 1; break;
  case 3: e = F::efield - 1 - (unsigned) t.range(0, 1); break;
  case 4: e = (unsigned) t.range(0, F::efield - 1); break;
  case 5: e = bias + F::p - 1 + (unsigned) t.range(0, 4) - 2; break;
  case 6: e = bias + IB[t.range(0, 7)] - (unsigned) t.range(0, 1); break;
  default: e = F::efield; break;
  }
  switch (t.weighted({ 4, 2, 3, 2, 5, 3, 2 })) {
  case 0: f = 0; break;
  case 1: f = 1; break;
  case 2: f = fmask; break;
  case 3: f = fmask - 1; break;
  case 4: f = (((uint64_t) t.range(0, 0xffffffffL)) << 32 | (uint64_t) t.range(0, 0xffffffffL)) & fmask; break;
  case 5: f = (1ULL << t.range(0, F::fbits - 1)); break;
  default: f = (1ULL << (F::fbits - 1)) + (uint64_t) t.range(0, 2) - 1; break;
  }
  if ((int) e == F::efield) { if (f == 0 && !inf_ok) { e = F::efield - 1; f = fmask; } else if (f != 0 && !nan_ok) { if (inf_ok) f = 0; else { e = F::efield - 1; f = fmask; } } }
  return F::make(s, e, f);
}
// a number of type (T,P); `special' allows NaN / infinities when the policy has them
template <class T, class P> static typename NumOf<T, P>::type gen(vf::Tape& t, bool special) {
  typedef typename NumOf<T, P>::pol PL; typename NumOf<T, P>::type n;
  if constexpr (TT<T>::cat == 0) { int sp; NumOf<T, P>::raw(n) = gen_int_raw<T, P>(t, special, sp); }
  else if constexpr (TT<T>::cat == 1) NumOf<T, P>::raw(n) = gen_float_raw<T>(t, special && PL::has_infinity, special && PL::has_nan);
  else {
    int sp = 0;
    if (special && (PL::has_infinity || PL::has_nan) && t.chance(12)) { int w = t.weighted({ PL::has_infinity ? 1 : 0, PL::has_infinity ? 1 : 0, PL::has_nan ? 1 : 0 }); sp = w == 0 ? 1 : w == 1 ? -1 : 2; }
    if (sp) set_special<T, P>(n, sp);
    else if constexpr (TT<T>::cat == 2) NumOf<T, P>::raw(n) = gen_z(t);
    else NumOf<T, P>::raw(n) = gen_q(t);
  }
  return n;
}
// second operand: often related to the first
template <class T, class P> static typename NumOf<T, P>::type gen2(vf::Tape& t, bool special, const typename NumOf<T, P>::type& x) {
  typedef typename NumOf<T, P>::type N;
  int w = t.weighted({ 6, 1, 1, 1 });
  if (w == 0) return gen<T, P>(t, special);
  XV xv = decode<T, P>(x);
  if (w == 1 || xv.k != 0) return x;
  N y = x;
  if constexpr (TT<T>::cat == 0) {
    Z v = toZ(NumOf<T, P>::raw(x)); if (w == 2) v = -v; else v += (t.chance(50) ? 1 : -1);
    Z lo = toZ(IL<T, P>::lo()), hi = toZ(IL<T, P>::hi()); if (v < lo) v = lo; if (v > hi) v = hi; NumOf<T, P>::raw(y) = fromZ<T>(v);
  }
  else if constexpr (TT<T>::cat == 1) {
    bool s; unsigned e; uint64_t f; FB<T>::split(NumOf<T, P>::raw(x), s, e, f);
    if (w == 2) s = !s;
    else { const uint64_t fmask = (FB<T>::fbits == 63 ? ((1ULL << 63) - 1) : ((1ULL << FB<T>::fbits) - 1)); if (f < fmask) ++f; else if (f > 0) --f; }
    NumOf<T, P>::raw(y) = FB<T>::make(s, e, f);
  }
  else if constexpr (TT<T>::cat == 2) { if (w == 2) NumOf<T, P>::raw(y) = -NumOf<T, P>::raw(x); else NumOf<T, P>::raw(y) = NumOf<T, P>::raw(x) + 1; }
  else { if (w == 2) NumOf<T, P>::raw(y) = -NumOf<T, P>::raw(x); else NumOf<T, P>::raw(y) = NumOf<T, P>::raw(x) + Q(1, 3); }
  return y;
}
template <class T, class P> static typename NumOf<T, P>::type one() {
  typename NumOf<T, P>::type n; NumOf<T, P>::raw(n) = 1; return n;
}

// rounding directions
static const int ND = 6;
static Rounding_Dir DIRS(int i) {
  switch (i) { case 0: return ROUND_UP; case 1: return ROUND_DOWN; case 2: return ROUND_IGNORE;
  case 3: return ROUND_UP | ROUND_STRICT_RELATION; case 4: return ROUND_DOWN | ROUND_STRICT_RELATION; default: return ROUND_NOT_NEEDED; }
}
static const char* DIRN(int i) { static const char* n[] = { "UP", "DOWN", "IGNORE", "UP|STRICT", "DOWN|STRICT", "NOT_NEEDED" }; return n[i]; }
static bool r_up(Rounding_Dir d) { return (d & 7U) == 1U; }
static bool r_down(Rounding_Dir d) { return (d & 7U) == 0U; }
static bool r_nn(Rounding_Dir d) { return (d & 7U) == 7U; }

// =====================================================================================
// the oracle
// =====================================================================================
static std::string rstr(Result r) {
  unsigned u = (unsigned) r; std::ostringstream o;
  static const char* RN[] = { "EMPTY", "EQ", "LT", "LE", "GT", "GE", "NE", "LGE" };
  static const char* CN[] = { "", "|MINUS_INFINITY", "|PLUS_INFINITY", "|NAN" };
  // relation bits: EQ=1, LT=2, GT=4
  unsigned rel = u & 7; const char* rn = rel == 0 ? "EMPTY" : rel == 1 ? "EQ" : rel == 2 ? "LT" : rel == 3 ? "LE" : rel == 4 ? "GT" : rel == 5 ? "GE" : rel == 6 ? "NE" : "LGE"; (void) RN;
  o << "V_" << rn << CN[(u >> 4) & 3]; if (u & 64) o << "|OVERFLOW"; if (u & 128) o << "|UNREPRESENTABLE"; if (u >> 8) o << "|code" << (u >> 8);
  o << "(" << u << ")"; return o.str();
}

struct Verdict { const char* rule; std::string why; };
// Decide whether result code r and stored value S are acceptable for the exact result E.
// Returns 0 when fine, else the rule name (suffix of the check id).
//   unknown_sign: for add_mul / sub_mul, sign of a genuinely overflowing intermediate product (0: none)
static const char* judge(const Dest& d, Result r, Rounding_Dir dir, const XV& E, const XV& S, bool check_nn, int unknown_sign, std::string& why) {
  const unsigned u = (unsigned) r; const unsigned cls = u & 48U, rel = u & 7U; const bool ovf = u & 64U, unrep = u & 128U;
  const unsigned C_MINF = 16, C_PINF = 32, C_NAN = 48;
  if (E.k == 2) {
    if (cls != C_NAN) { why = "undefined result not classified NaN"; return "nan_class"; }
    if (d.has_nan) { if (S.k != 2) { why = "NaN result but no NaN stored"; return "nan_stored"; } if (unrep) { why = "NaN was stored but V_UNREPRESENTABLE is set"; return "nan_flag"; } }
    else if (!unrep) { why = "type has no NaN but V_UNREPRESENTABLE is not set"; return "nan_flag"; }
    return 0;
  }
  if (cls == C_NAN) {
    if (unknown_sign != 0 && ((r == V_UNKNOWN_NEG_OVERFLOW && unknown_sign < 0) || (r == V_UNKNOWN_POS_OVERFLOW && unknown_sign > 0))) {
      if (d.has_nan && S.k != 2) { why = "unknown-overflow NaN not stored"; return "nan_stored"; }
      return 0;
    }
    why = "defined result classified NaN"; return "spurious_nan";
  }
  const XV LO = fin(d.lo), HI = fin(d.hi);
  if (unrep) {      // nothing stored; the code must still be true
    if (u == ((unsigned) V_LT_PLUS_INFINITY | 128U)) { if (!(E.k == 0 && d.bounded && xcmp(E, HI) > 0)) { why = "+overflow claimed but exact result is not above the maximum"; return "overflow_claim"; } if (r_down(dir)) { why = "rounding down must store the maximum on positive overflow"; return "overflow_dir"; } return 0; }
    if (u == ((unsigned) V_GT_MINUS_INFINITY | 128U)) { if (!(E.k == 0 && d.bounded && xcmp(E, LO) < 0)) { why = "-overflow claimed but exact result is not below the minimum"; return "overflow_claim"; } if (r_up(dir)) { why = "rounding up must store the minimum on negative overflow"; return "overflow_dir"; } return 0; }
    if (u == ((unsigned) V_EQ_PLUS_INFINITY | 128U)) { if (E.k != 1 || d.has_inf) { why = "unrepresentable +infinity claimed wrongly"; return "inf_claim"; } if (d.bounded && r_down(dir)) { why = "rounding down +infinity must store the maximum"; return "overflow_dir"; } return 0; }
    if (u == ((unsigned) V_EQ_MINUS_INFINITY | 128U)) { if (E.k != -1 || d.has_inf) { why = "unrepresentable -infinity claimed wrongly"; return "inf_claim"; } if (d.bounded && r_up(dir)) { why = "rounding up -infinity must store the minimum"; return "overflow_dir"; } return 0; }
    why = "unexpected code with V_UNREPRESENTABLE"; return "unrep_code";
  }
  if (S.k == 2) { why = "NaN stored but the class is not NaN"; return "nan_stored_normal"; }
  if (ovf) {
    if (r == V_GT_SUP) { if (!(d.bounded && xcmp(E, HI) > 0)) { why = "V_GT_SUP but exact result is not above the maximum"; return "overflow_claim"; } if (xcmp(S, HI) != 0) { why = "V_GT_SUP but the maximum is not stored"; return "overflow_stored"; } }
    else if (r == V_LT_INF) { if (!(d.bounded && xcmp(E, LO) < 0)) { why = "V_LT_INF but exact result is not below the minimum"; return "overflow_claim"; } if (xcmp(S, LO) != 0) { why = "V_LT_INF but the minimum is not stored"; return "overflow_stored"; } }
    else { why = "V_OVERFLOW with an unexpected relation/class"; return "overflow_code"; }
  }
  else if (cls == C_PINF || cls == C_MINF) {
    const int s = cls == C_PINF ? 1 : -1;
    if (!d.has_inf) { why = "infinity class without V_UNREPRESENTABLE for a type without infinities"; return "inf_claim"; }
    if (S.k != s) { why = "infinity class but that infinity is not stored"; return "inf_stored"; }
    if (E.k == 0 && !(d.bounded && (s > 0 ? xcmp(E, HI) > 0 : xcmp(E, LO) < 0))) { why = "infinity stored but the exact result is within the finite range"; return "false_overflow"; }
  }
  else {
    if (S.k != 0 && d.cat != 1) { why = "class is normal but an infinity encoding is stored (wrapped into a special value)"; return "special_stored"; }
    if (S.k == 0 && d.cat == 0 && (S.v < d.lo || S.v > d.hi)) { why = "stored value outside the finite range"; return "range"; }
  }
  const int c = xcmp(E, S);       // sign(E - S)
  const bool relok = (c < 0 && (rel & 2U)) || (c == 0 && (rel & 1U)) || (c > 0 && (rel & 4U));
  if (!relok) { why = std::string("relation bits do not contain the actual relation (exact ") + (c < 0 ? "<" : c == 0 ? "==" : ">") + " stored)"; return "relation"; }
  if (r_up(dir) && c > 0) { why = "ROUND_UP but stored < exact"; return "direction"; }
  if (r_down(dir) && c < 0) { why = "ROUND_DOWN but stored > exact"; return "direction"; }
  if (check_nn && r_nn(dir) && c != 0) { why = "ROUND_NOT_NEEDED with a representable exact result, but a different value is stored"; return "not_needed_exact"; }
  return 0;
}

// Triage aid: the environment variable C11_SKIP holds a comma separated list of known-bad classes that are then
// not generated (so that further defects hidden behind an already muted check id can be surveyed):
//   div-negdiv   signed integer div, negative divisor, inexact quotient, directed rounding
//   isqrt        signed integer sqrt with operand >= 2^(bits-2)
//   umod-ext     signed integer umod_2exp whose result exceeds the finite maximum of the policy
//   lcm-min      integer lcm with an operand whose absolute value is not representable
//   sqrt-mpq     mpq sqrt with operand <= 1, or with ROUND_IGNORE / ROUND_NOT_NEEDED
//   mpz-ldouble-neg  mpz <- long double in (-1, 0) (and mixed comparisons of the two): goes through float_mpq_to_string
//   int-ldouble-rint  integer <- long double whose value needs more than 53 significant bits (rint() in double precision)
//   cmp-float-nan     native integer compared with a native float NaN
//   fma-inf      float add_mul / sub_mul with an infinite accumulator (strict relation from an inexact intermediate product)
//   cmp-mp-float cmp of a native mpz/mpq with a native float NaN / infinity (SIGFPE inside GMP)
//   int-float-edge  integer <- float conversion (and mixed comparisons) with the float just outside the integer range
//   cmp-swap     greater_than / greater_or_equal between operands whose policies differ in has_nan / has_infinity
static bool known(const char* cls) {
  static std::set<std::string> s; static bool init = false;
  if (!init) { init = true; const char* e = std::getenv("C11_SKIP"); if (e) { std::string cur; for (const char* p = e; ; ++p) { if (*p == ',' || *p == 0) { if (!cur.empty()) s.insert(cur); cur.clear(); if (!*p) break; } else cur += *p; } } }
  return s.count(cls) != 0;
}
// a float value just outside an integer range: beyond the bound by less than a factor 1 + 2^-20
static bool float_edge(const Dest& d, const XV& E) {
  if (E.k != 0 || E.sq || !d.bounded || d.cat != 0) return false;
  if (E.v > d.hi) return E.v <= d.hi + (abs(d.hi) + 1) / 1000000 + 1;
  if (E.v < d.lo) return E.v >= d.lo - (abs(d.lo) + 1) / 1000000 - 1;
  return false;
}

// GMP signals a conversion of NaN / infinity by an integer division by zero (SIGFPE); the CHECK_P macro of the checked
// kernel uses the plain assert() (SIGABRT in assertion-enabled builds).  Library calls run under a guard that turns
// these signals into a failing check ("....signal") instead of a process crash.
static sigjmp_buf g_fpe_jb; static volatile sig_atomic_t g_fpe_armed = 0; static volatile sig_atomic_t g_fpe_sig = 0;
static void fpe_handler(int sig) { if (g_fpe_armed) { g_fpe_armed = 0; g_fpe_sig = sig; siglongjmp(g_fpe_jb, 1); } vf::crash_handler(sig); }
static void arm_fpe() { static bool inst = false; if (!inst) { inst = true; std::signal(SIGFPE, fpe_handler); std::signal(SIGABRT, fpe_handler); } }
// A signal handler starts with a pristine FPU state and siglongjmp() skips the sigreturn that would restore the
// interrupted one: the floating point environment (PPL runs with upward rounding) is saved before and restored after.
static fenv_t g_fenv;
static std::string sigdesc() { return g_fpe_sig == SIGFPE ? "SIGFPE (integer division by zero)" : "SIGABRT (assert() / abort())"; }

// ---- operations
enum Op { NEG, ABS, FLOOR, CEIL, TRUNC, SQRT, ADD, SUB, MUL, DIV, IDIV, REM, GCD, LCM, ADD_MUL, SUB_MUL,
          ADD_2EXP, SUB_2EXP, MUL_2EXP, DIV_2EXP, SMOD_2EXP, UMOD_2EXP, NOPS };
static const char* const OPN[NOPS] = { "neg", "abs", "floor", "ceil", "trunc", "sqrt", "add", "sub", "mul", "div", "idiv", "rem", "gcd", "lcm",
  "add_mul", "sub_mul", "add_2exp", "sub_2exp", "mul_2exp", "div_2exp", "smod_2exp", "umod_2exp" };
static bool op_unary(int op) { return op <= SQRT; }
static bool op_2exp(int op) { return op >= ADD_2EXP; }
static bool op_has(int op, int cat) { if (op == GCD || op == LCM) return cat == 0 || cat == 2; if (op == IDIV) return cat != 1; /* no idiv for floats */ return true; }

static bool x_add(const XV& a, const XV& b, bool flag_ok, XV& E) {     // a + b on extended values
  if (a.k != 0 && b.k != 0) { if (a.k != b.k) { if (!flag_ok) return false; E = xnan(); return true; } E = a; return true; }
  if (a.k != 0) { E = a; return true; } if (b.k != 0) { E = b; return true; }
  E = fin(a.v + b.v); return true;
}
static XV x_neg(const XV& a) { XV r = a; if (a.k == 0) r.v = -a.v; else if (a.k != 2) r.k = -a.k; return r; }
static bool x_mul(const XV& a, const XV& b, bool flag_ok, XV& E) {
  if (a.k != 0 || b.k != 0) { int s = xsgn(a) * xsgn(b); if (s == 0) { if (!flag_ok) return false; E = xnan(); return true; } E = xinf(s); return true; }
  E = fin(a.v * b.v); return true;
}
// Exact result of op; false when the operands violate a precondition of the policy.
static bool exactE(int op, const XV& x, const XV& y, const XV& t, unsigned e, const Dest& f, XV& E) {
  const bool bin = !op_unary(op) && !op_2exp(op);
  if (x.k == 2 || (bin && y.k == 2) || ((op == ADD_MUL || op == SUB_MUL) && t.k == 2)) { if (!f.f_nan_ok) return false; E = xnan(); return true; }
  switch (op) {
  case NEG: E = x_neg(x); return true;
  case ABS: E = xsgn(x) < 0 ? x_neg(x) : x; return true;
  case FLOOR: case CEIL: case TRUNC:
    if (x.k != 0) { E = x; return true; }
    E = fin(Q(op == FLOOR ? zfloor(x.v) : op == CEIL ? zceil(x.v) : ztrunc(x.v))); return true;
  case SQRT:
    if (xsgn(x) < 0) { if (!f.f_sqrt_neg) return false; E = xnan(); return true; }
    if (x.k == 1) { E = x; return true; }
    E = mk_sqrt(x.v); return true;
  case ADD: return x_add(x, y, f.f_inf_add_inf, E);
  case SUB: return x_add(x, x_neg(y), f.f_inf_sub_inf, E);
  case MUL: return x_mul(x, y, f.f_inf_mul_zero, E);
  case DIV: case IDIV:
    if (x.k != 0 && y.k != 0) { if (!f.f_inf_div_inf) return false; E = xnan(); return true; }
    if (xsgn(y) == 0) { if (!f.f_div_zero) return false; E = xnan(); return true; }
    if (x.k != 0) { E = xinf(xsgn(x) * xsgn(y)); return true; }
    if (y.k != 0) { E = fin(0); return true; }
    E = fin(x.v / y.v); if (op == IDIV) E = fin(Q(ztrunc(E.v))); return true;
  case REM:
    if (x.k != 0) { if (!f.f_inf_mod) return false; if (xsgn(y) == 0 && !f.f_div_zero) return false; E = xnan(); return true; }
    if (xsgn(y) == 0) { if (!f.f_div_zero) return false; E = xnan(); return true; }
    if (y.k != 0) { E = x; return true; }
    { Q q = x.v / y.v; E = fin(x.v - Q(ztrunc(q)) * y.v); } return true;
  case GCD: case LCM: {
    if (x.k != 0 || y.k != 0) return false;
    if (x.v.get_den() != 1 || y.v.get_den() != 1) return false;
    Z g; mpz_gcd(g.get_mpz_t(), x.v.get_num().get_mpz_t(), y.v.get_num().get_mpz_t());
    if (op == GCD) { E = fin(Q(g)); return true; }
    if (sgn(g) == 0) { E = fin(0); return true; }
    Z l = abs(x.v.get_num() * y.v.get_num()) / g; E = fin(Q(l)); return true;
  }
  case ADD_MUL: case SUB_MUL: {
    XV p; if (!x_mul(x, y, f.f_inf_mul_zero, p)) return false; if (p.k == 2) { E = p; return true; }
    if (op == ADD_MUL) return x_add(t, p, f.f_inf_add_inf, E);
    return x_add(t, x_neg(p), f.f_inf_sub_inf, E);
  }
  case ADD_2EXP: case SUB_2EXP: if (x.k != 0) { E = x; return true; } E = fin(op == ADD_2EXP ? Q(x.v + pow2(e)) : Q(x.v - pow2(e))); return true;
  case MUL_2EXP: case DIV_2EXP: if (x.k != 0) { E = x; return true; } E = fin(op == MUL_2EXP ? Q(x.v * pow2(e)) : Q(x.v / pow2(e))); return true;
  case SMOD_2EXP: case UMOD_2EXP: {
    if (x.k != 0) { if (!f.f_inf_mod) return false; E = xnan(); return true; }
    Q m = pow2(e); Q q = x.v / m; Q r = x.v - Q(zfloor(q)) * m;
    if (op == SMOD_2EXP && r >= m / 2) r -= m;
    E = fin(r); return true;
  }
  default: return false;
  }
}

template <class T, class P> static Result exec(int op, typename NumOf<T, P>::type& to, const typename NumOf<T, P>::type& x, const typename NumOf<T, P>::type& y, unsigned e, Rounding_Dir d) {
  switch (op) {
  case NEG: return neg_assign_r(to, x, d);
  case ABS: return abs_assign_r(to, x, d);
  case FLOOR: return floor_assign_r(to, x, d);
  case CEIL: return ceil_assign_r(to, x, d);
  case TRUNC: return trunc_assign_r(to, x, d);
  case SQRT: return sqrt_assign_r(to, x, d);
  case ADD: return add_assign_r(to, x, y, d);
  case SUB: return sub_assign_r(to, x, y, d);
  case MUL: return mul_assign_r(to, x, y, d);
  case DIV: return div_assign_r(to, x, y, d);
  case IDIV: if constexpr (TT<T>::cat != 1) return idiv_assign_r(to, x, y, d); else return V_NAN;
  case REM: return rem_assign_r(to, x, y, d);
  case GCD: if constexpr (TT<T>::cat == 0 || TT<T>::cat == 2) return gcd_assign_r(to, x, y, d); else return V_NAN;
  case LCM: if constexpr (TT<T>::cat == 0 || TT<T>::cat == 2) return lcm_assign_r(to, x, y, d); else return V_NAN;
  case ADD_MUL: return add_mul_assign_r(to, x, y, d);
  case SUB_MUL: return sub_mul_assign_r(to, x, y, d);
  case ADD_2EXP: return add_2exp_assign_r(to, x, e, d);
  case SUB_2EXP: return sub_2exp_assign_r(to, x, e, d);
  case MUL_2EXP: return mul_2exp_assign_r(to, x, e, d);
  case DIV_2EXP: return div_2exp_assign_r(to, x, e, d);
  case SMOD_2EXP: return smod_2exp_assign_r(to, x, e, d);
  default: return umod_2exp_assign_r(to, x, e, d);
  }
}

static const char* outcome_class(const Dest& d, const XV& E) {
  if (E.k == 2) return "nan"; if (E.k != 0) return "inf";
  if (d.bounded && (xcmp(E, fin(d.hi)) > 0 || xcmp(E, fin(d.lo)) < 0)) return "out-of-range";
  return representable(d, E) ? "exact" : "inexact";
}
// exp restrictions (preconditions): floats exp < 64 (asserted), smod needs exp >= 1
static unsigned fix_exp(int op, int cat, unsigned e) {
  if (cat == 1 && e > 63) e = 63;
  if (op == SMOD_2EXP && e == 0) e = 1;     // exp == 0: shift UB for native integers, division by zero (SIGFPE) for mpq: taken as a precondition, reported as a lead
  return e;
}
// for these the implementation is multi-step: ROUND_NOT_NEEDED would also need exact intermediates
static bool nn_allowed(int op, int cat) {
  if (cat == 1 && (op == ADD_MUL || op == SUB_MUL || op == SMOD_2EXP || op == UMOD_2EXP || op == IDIV || op == GCD || op == LCM)) return false;
  if (cat == 0 && (op == ADD_MUL || op == SUB_MUL || op == LCM)) return false;
  return true;
}

// One operation on type (T,P).  diri < 0: choose the direction from the tape.  Returns false when the
// operands violate a precondition (nothing executed).
template <class T, class P>
static bool run_op(vf::Ctx& c, int op, const typename NumOf<T, P>::type& x, const typename NumOf<T, P>::type& y, const typename NumOf<T, P>::type& t0,
                   unsigned e, int diri, bool quiet, const char* idpfx) {
  typedef typename NumOf<T, P>::type N; const Dest& d = dest<T, P>();
  const XV xv = decode<T, P>(x), yv = decode<T, P>(y), tv = decode<T, P>(t0);
  XV E; if (!exactE(op, xv, yv, tv, e, d, E)) return false;
  const bool repr = representable(d, E);
  if constexpr (TT<T>::cat == 0) {
    const bool sgnd = std::numeric_limits<T>::is_signed;
    if (sgnd && op == DIV && yv.k == 0 && sgn(yv.v) < 0 && !repr && known("div-negdiv")) return false;
    if (sgnd && op == SQRT && xv.k == 0 && xv.v >= pow2((long) sizeof(T) * 8 - 2) && known("isqrt")) return false;
    if (sgnd && op == UMOD_2EXP && E.k == 0 && E.v > d.hi && known("umod-ext")) return false;
    if (op == LCM && ((xv.k == 0 && -xv.v > d.hi) || (yv.k == 0 && -yv.v > d.hi)) && known("lcm-min")) return false;
  }
  if (diri < 0) { diri = (int) c.t.range(0, ND - 1); if (diri == 5 && !(repr && nn_allowed(op, d.cat))) diri = (int) c.t.range(0, 4); }
  else if (diri == 5 && !(repr && nn_allowed(op, d.cat))) return false;
  if constexpr (TT<T>::cat == 1) { if ((op == ADD_MUL || op == SUB_MUL) && tv.k != 0 && known("fma-inf")) return false; }
  if constexpr (TT<T>::cat == 3) { if (op == SQRT && xv.k == 0 && (xv.v <= 1 || diri == 2 || diri == 5) && known("sqrt-mpq")) return false; }
  const Rounding_Dir dir = DIRS(diri);
  N to = t0;
  if (!quiet) {
    c.log << d.tname << "/" << d.pname << " " << OPN[op] << " x=" << show(xv); if (!op_unary(op) && !op_2exp(op)) c.log << " y=" << show(yv);
    if (op_2exp(op)) c.log << " exp=" << e; if (op == ADD_MUL || op == SUB_MUL) c.log << " to=" << show(tv);
    c.log << " dir=" << DIRN(diri) << " exact=" << show(E) << "\n";
  }
  Result r = V_EQ;
  arm_fpe(); std::fegetenv(&g_fenv);
  if (sigsetjmp(g_fpe_jb, 1) != 0) {
    std::fesetenv(&g_fenv);
    c.check(std::string(idpfx) + CATN[d.cat] + "." + OPN[op] + ".signal", false, d.tname + "/" + d.pname + " " + OPN[op] + "(x=" + show(xv) + ", y=" + show(yv) + ", exp=" + std::to_string(e) + ") dir=" + DIRN(diri) + ": " + sigdesc());
    return true;
  }
  g_fpe_armed = 1;
  try { r = exec<T, P>(op, to, x, y, e, dir); g_fpe_armed = 0; }
  catch (vf::PplAssert& a) {
    g_fpe_armed = 0;
    if (a.site.compare(0, 11, "unreachable") != 0) throw;
    c.check(std::string(idpfx) + CATN[d.cat] + "." + OPN[op] + ".unreachable", false, d.tname + "/" + d.pname + " " + OPN[op] + "(x=" + show(xv) + ", y=" + show(yv) + ") dir=" + DIRN(diri) + ": " + a.what());
    return true;
  }
  const XV S = decode<T, P>(to);
  int unknown_sign = 0;
  if ((op == ADD_MUL || op == SUB_MUL) && d.cat == 0 && xv.k == 0 && yv.k == 0) { Q p = xv.v * yv.v; unknown_sign = p > d.hi ? 1 : p < d.lo ? -1 : 0; }
  std::string why; const char* rule = judge(d, r, dir, E, S, true, unknown_sign, why);
  if (rule) {
    std::ostringstream m; m << d.tname << "/" << d.pname << " " << OPN[op] << "(x=" << show(xv);
    if (!op_unary(op) && !op_2exp(op)) m << ", y=" << show(yv); if (op_2exp(op)) m << ", exp=" << e; if (op == ADD_MUL || op == SUB_MUL) m << ", to=" << show(tv);
    m << ") dir=" << DIRN(diri) << ": exact=" << show(E) << " stored=" << show(S) << " result=" << rstr(r) << " : " << why;
    if (std::strcmp(rule, "nan_flag") == 0) c.check(std::string(idpfx) + CATN[d.cat] + ".nan_flag", false, m.str());
    else c.check(std::string(idpfx) + CATN[d.cat] + "." + OPN[op] + "." + rule, false, m.str());
  }
  // PPL's own classification of the stored value must agree with the bit-level decoding
  if (!((unsigned) r & 128U)) {
    const bool pn = is_not_a_number(to), pp = is_plus_infinity(to), pm = is_minus_infinity(to);
    if (pn != (S.k == 2) || pp != (S.k == 1) || pm != (S.k == -1))
      c.check(std::string(idpfx) + CATN[d.cat] + ".classify", false, d.tname + "/" + d.pname + " " + OPN[op] + ": is_not_a_number/is_plus_infinity/is_minus_infinity disagree with the stored bits, stored=" + show(S));
    if constexpr (TT<T>::cat == 3) {
      if (S.k == 0) { Q cn = NumOf<T, P>::raw(to); cn.canonicalize(); const Q& st = NumOf<T, P>::raw(to);
        if (cn.get_num() != st.get_num() || cn.get_den() != st.get_den())
          c.check(std::string(idpfx) + "mpq." + OPN[op] + ".canonical", false, d.tname + "/" + d.pname + " " + OPN[op] + ": stored rational " + st.get_num().get_str() + "/" + st.get_den().get_str() + " is not in canonical form"); }
    }
  }
  if (!quiet) {
    const char* oc = outcome_class(d, E);
    c.tag(d.tname + "/" + d.pname + " " + OPN[op]); c.tag(std::string(CATN[d.cat]) + " " + OPN[op] + " " + oc); c.tag(std::string("dir ") + DIRN(diri));
    if (oc[0] != 'e' || oc[1] != 'x') c.nt();       // non-trivial: inexact, out of range, infinite or undefined exact result
  }
  return true;
}

// =====================================================================================
// case drivers
// =====================================================================================
template <class T> struct Tag { typedef T type; };
static const int NTYPES = 12;
template <class F> static void with_type(int i, F&& f) {
  switch (i) {
  case 0: f(Tag<int8_t>()); break; case 1: f(Tag<uint8_t>()); break; case 2: f(Tag<int16_t>()); break; case 3: f(Tag<int32_t>()); break;
  case 4: f(Tag<int64_t>()); break; case 5: f(Tag<uint32_t>()); break; case 6: f(Tag<uint64_t>()); break;
  case 7: f(Tag<float>()); break; case 8: f(Tag<double>()); break; case 9: f(Tag<long double>()); break;
  case 10: f(Tag<mpz_class>()); break; default: f(Tag<mpq_class>()); break;
  }
}
// 0 native, 1 wrd, 2 dbg, 3 bnd (integers only; wrd otherwise)
template <class T, class F> static void with_policy(int i, F&& f) {
  switch (i) {
  case 0: f(Tag<NatP>()); break; case 1: f(Tag<WP>()); break; case 2: f(Tag<DP>()); break;
  default: if constexpr (TT<T>::cat == 0) f(Tag<BP>()); else f(Tag<WP>()); break;
  }
}
template <class T, class P> static typename NumOf<T, P>::type sentinel() { typename NumOf<T, P>::type n; NumOf<T, P>::raw(n) = 5; return n; }

static unsigned gen_exp(vf::Tape& t, int cat, int bits) {
  switch (t.weighted({ 5, 3, 3, 2 })) {
  case 0: return (unsigned) t.range(0, 10);
  case 1: return (unsigned) (cat == 0 ? std::max(0L, bits - 2 + t.range(0, 4)) : 30 + t.range(0, 4));
  case 2: { static const unsigned es[] = { 7, 8, 15, 16, 31, 32, 33, 62, 63, 64, 65 }; return es[t.range(0, 10)]; }
  default: return (unsigned) t.range(0, 70);
  }
}

template <class T, class P> static void arith_case(vf::Ctx& c) {
  typedef typename NumOf<T, P>::type N; const int cat = TT<T>::cat;
  int ops[NOPS]; int n = 0; for (int o = 0; o < NOPS; ++o) if (op_has(o, cat)) ops[n++] = o;
  // index 0 (simplest) is add
  std::swap(ops[0], ops[6]);
  const int op = ops[c.t.range(0, n - 1)];
  const bool special = !(op == GCD || op == LCM);
  N x = gen<T, P>(c.t, special);
  N y = (op_unary(op) || op_2exp(op)) ? one<T, P>() : gen2<T, P>(c.t, special, x);
  N t0 = (op == ADD_MUL || op == SUB_MUL) ? gen<T, P>(c.t, special) : sentinel<T, P>();
  unsigned e = op_2exp(op) ? fix_exp(op, cat, gen_exp(c.t, cat, (int) sizeof(T) * 8)) : 0;
  if (run_op<T, P>(c, op, x, y, t0, e, -1, false, "")) return;
  c.tag("precondition-repair");
  y = one<T, P>(); if (run_op<T, P>(c, op, x, y, t0, e, -1, false, "")) return;
  x = one<T, P>(); if (run_op<T, P>(c, op, x, y, t0, e, -1, false, "")) return;
  t0 = one<T, P>(); run_op<T, P>(c, op, x, y, t0, e, -1, false, "");
}

template <class T1, class P1, class T2, class P2> static void assign_case(vf::Ctx& c) {
  typedef typename NumOf<T1, P1>::type N1; typedef typename NumOf<T2, P2>::type N2;
  const Dest& d = dest<T2, P2>(); const Dest& s = dest<T1, P1>();
  N1 x = gen<T1, P1>(c.t, true); XV xv = decode<T1, P1>(x);
  // a float destination whose policy does not check NaN results takes NaN sources as a precondition
  if (xv.k == 2 && d.cat == 1 && !d.f_nan_ok) { x = one<T1, P1>(); xv = decode<T1, P1>(x); }
  if (s.cat == 1 && float_edge(d, xv) && known("int-float-edge")) { x = one<T1, P1>(); xv = decode<T1, P1>(x); }
  if (std::is_same<T1, long double>::value && d.cat == 0 && xv.k == 0 && !float_repr(xv.v, 53, 1023, -1074) && known("int-ldouble-rint")) { x = one<T1, P1>(); xv = decode<T1, P1>(x); }
  if (std::is_same<T1, long double>::value && d.cat == 2 && xv.k == 0 && xv.v < 0 && xv.v > -1 && known("mpz-ldouble-neg")) { x = one<T1, P1>(); xv = decode<T1, P1>(x); }
  const XV E = xv; const bool repr = representable(d, E);
  int diri = (int) c.t.range(0, ND - 1); if (diri == 5 && !repr) diri = (int) c.t.range(0, 4);
  const Rounding_Dir dir = DIRS(diri);
  c.log << "assign " << d.tname << "/" << d.pname << " <- " << s.tname << "/" << s.pname << " x=" << show(xv) << " dir=" << DIRN(diri) << "\n";
  N2 to = sentinel<T2, P2>();
  arm_fpe(); std::fegetenv(&g_fenv);
  if (sigsetjmp(g_fpe_jb, 1) != 0) {
    std::fesetenv(&g_fenv);
    c.check(std::string(CATN[d.cat]) + ".assign_" + CATN[s.cat] + ".signal", false, "assign_r(" + d.tname + "/" + d.pname + " <- " + s.tname + "/" + s.pname + " x=" + show(xv) + ") dir=" + DIRN(diri) + ": " + sigdesc());
    return;
  }
  g_fpe_armed = 1;
  const Result r = assign_r(to, x, dir);
  g_fpe_armed = 0;
  const XV S = decode<T2, P2>(to);
  std::string why; const char* rule = judge(d, r, dir, E, S, true, 0, why);
  if (rule) {
    std::ostringstream m; m << "assign_r(" << d.tname << "/" << d.pname << " <- " << s.tname << "/" << s.pname << " x=" << show(xv) << ") dir=" << DIRN(diri)
      << ": stored=" << show(S) << " result=" << rstr(r) << " : " << why;
    if (std::strcmp(rule, "nan_flag") == 0) c.check(std::string(CATN[d.cat]) + ".nan_flag", false, m.str());
    else c.check(std::string(CATN[d.cat]) + ".assign_" + CATN[s.cat] + "." + rule, false, m.str());
  }
  if (!((unsigned) r & 128U)) {
    const bool pn = is_not_a_number(to), pp = is_plus_infinity(to), pm = is_minus_infinity(to);
    if (pn != (S.k == 2) || pp != (S.k == 1) || pm != (S.k == -1))
      c.check(std::string(CATN[d.cat]) + ".classify", false, d.tname + "/" + d.pname + " assign: classification disagrees with the stored bits, stored=" + show(S));
  }
  const char* oc = outcome_class(d, E);
  c.tag("assign " + d.tname + "/" + d.pname + " <- " + s.tname); c.tag(std::string(CATN[d.cat]) + " assign_" + CATN[s.cat] + " " + oc); c.tag(std::string("dir ") + DIRN(diri));
  if (oc[0] != 'e' || oc[1] != 'x') c.nt();
}

template <class T1, class P1, class T2, class P2> static void compare_case(vf::Ctx& c) {
  typedef typename NumOf<T1, P1>::type N1; typedef typename NumOf<T2, P2>::type N2;
  const Dest& d1 = dest<T1, P1>(); const Dest& d2 = dest<T2, P2>();
  N1 x = gen<T1, P1>(c.t, true); N2 y;
  if constexpr (std::is_same<T1, T2>::value && std::is_same<P1, P2>::value) y = gen2<T1, P1>(c.t, true, x);
  else {
    // half of the time a value close to x: x converted with directed rounding (just a way to obtain an operand)
    if (c.t.chance(50) && decode<T1, P1>(x).k == 0) { y = sentinel<T2, P2>(); Result r = assign_r(y, x, c.t.chance(50) ? ROUND_UP : ROUND_DOWN); if (((unsigned) r & 128U) || decode<T2, P2>(y).k == 2) y = gen<T2, P2>(c.t, true); }
    else y = gen<T2, P2>(c.t, true);
  }
  const XV xv = decode<T1, P1>(x), yv = decode<T2, P2>(y);
  c.log << "compare " << d1.tname << "/" << d1.pname << " x=" << show(xv) << "  with " << d2.tname << "/" << d2.pname << " y=" << show(yv) << "\n";
  if (known("int-float-edge") && ((d1.cat == 0 && d2.cat == 1 && float_edge(d1, yv)) || (d2.cat == 0 && d1.cat == 1 && float_edge(d2, xv)))) { c.tag("compare skipped (int-float-edge)"); return; }
  if (known("mpz-ldouble-neg") && ((std::is_same<T1, long double>::value && d2.cat == 2 && xv.k == 0 && xv.v < 0 && xv.v > -1) || (std::is_same<T2, long double>::value && d1.cat == 2 && yv.k == 0 && yv.v < 0 && yv.v > -1))) { c.tag("compare skipped (mpz-ldouble-neg)"); return; }
  if (known("cmp-mp-float") && ((d1.cat >= 2 && !d1.has_nan && d2.cat == 1 && yv.k != 0) || (d2.cat >= 2 && !d2.has_nan && d1.cat == 1 && xv.k != 0))) { c.tag("compare skipped (cmp-mp-float)"); return; }
  const bool un = xv.k == 2 || yv.k == 2; const int cv = un ? 0 : xcmp(xv, yv);
  // check ids: cmp.<function>.samepol when both operand policies agree on has_nan / has_infinity, cmp.<function>.mixedpol otherwise
  typedef typename Native_Checked_From_Wrapper<N1>::Policy FP1; typedef typename Native_Checked_From_Wrapper<N2>::Policy FP2;
  const bool mixedpol = (FP1::has_nan != FP2::has_nan || FP1::has_infinity != FP2::has_infinity);
  const std::string pfx = "cmp.", sfx = mixedpol ? ".mixedpol" : ".samepol";
  if (known("cmp-float-nan") && mixedpol && ((d1.cat == 0 && d2.cat == 1 && yv.k == 2) || (d2.cat == 0 && d1.cat == 1 && xv.k == 2))) { c.tag("compare skipped (cmp-float-nan)"); return; }
  auto msg = [&](const char* f, bool got) { return [=]() { return std::string(f) + "(" + d1.tname + "/" + d1.pname + " " + show(xv) + ", " + d2.tname + "/" + d2.pname + " " + show(yv) + ") returned " + (got ? "true" : "false"); }; };
  bool g;
  arm_fpe(); std::fegetenv(&g_fenv);
  if (sigsetjmp(g_fpe_jb, 1) != 0) {
    std::fesetenv(&g_fenv);
    c.check("cmp.signal" + sfx, false, sigdesc() + " while comparing " + d1.tname + "/" + d1.pname + " " + show(xv) + " with " + d2.tname + "/" + d2.pname + " " + show(yv));
    return;
  }
  g_fpe_armed = 1;
  g = equal(x, y); c.check(pfx + "equal" + sfx, g == (!un && cv == 0), msg("equal", g));
  g = not_equal(x, y); c.check(pfx + "not_equal" + sfx, g == (un || cv != 0), msg("not_equal", g));
  g = less_than(x, y); c.check(pfx + "less_than" + sfx, g == (!un && cv < 0), msg("less_than", g));
  g = less_or_equal(x, y); c.check(pfx + "less_or_equal" + sfx, g == (!un && cv <= 0), msg("less_or_equal", g));
  // gt_ext / ge_ext are implemented as lt_ext<Policy1, Policy2>(y, x): the arguments are swapped, the policies are not
  // (reported as a candidate defect).  In assertion-enabled builds that trips a plain assert() - a process abort -
  // when the two policies disagree on has_nan / has_infinity and a special value is present: skip the two calls there.
  bool swap_ok = true;
#ifndef NDEBUG
  if (mixedpol && (xv.k != 0 || yv.k != 0)) { swap_ok = false; c.tag("compare gt/ge skipped (policy swap assert)"); }
#endif
  if (mixedpol && known("cmp-swap")) swap_ok = false;
  if (swap_ok) {
    g = greater_than(x, y); c.check(pfx + "greater_than" + sfx, g == (!un && cv > 0), msg("greater_than", g));
    g = greater_or_equal(x, y); c.check(pfx + "greater_or_equal" + sfx, g == (!un && cv >= 0), msg("greater_or_equal", g));
  }
  if constexpr (std::is_same<T1, T2>::value) {
    if (!un) { int k = cmp(x, y); c.check(pfx + "cmp" + sfx, ((k > 0) - (k < 0)) == cv, [&]() { return "cmp(" + d1.tname + "/" + d1.pname + " " + show(xv) + ", " + d2.tname + "/" + d2.pname + " " + show(yv) + ") = " + std::to_string(k); }); }
  }
  g_fpe_armed = 0;
  if (xv.k != 2) { int k = sgn(x); c.check(std::string("pred.") + CATN[d1.cat] + ".sgn", k == xsgn(xv), [&]() { return "sgn(" + d1.tname + "/" + d1.pname + " " + show(xv) + ") = " + std::to_string(k); }); }
  if (xv.k == 0) { bool k = is_integer(x); c.check(std::string("pred.") + CATN[d1.cat] + ".is_integer", k == (xv.v.get_den() == 1), [&]() { return "is_integer(" + d1.tname + "/" + d1.pname + " " + show(xv) + ") = " + (k ? "true" : "false"); }); }
  c.tag("compare " + d1.tname + "/" + d1.pname + " ? " + d2.tname); c.tag(un ? "compare unordered" : cv == 0 ? "compare equal" : "compare different");
  if (un || cv == 0 || xv.k != 0 || yv.k != 0) c.nt();     // non-trivial: equal, unordered or infinite operands
}

// Exhaustive sweep over all 8-bit operand patterns for one (type, policy, op, rounding direction).
template <class T, class P> static void exhaustive8(vf::Ctx& c) {
  typedef typename NumOf<T, P>::type N; const Dest& d = dest<T, P>();
  const int op = (int) c.t.range(0, NOPS - 1); const int diri = (int) c.t.range(0, ND - 1);
  N t0 = (op == ADD_MUL || op == SUB_MUL) ? gen<T, P>(c.t, true) : sentinel<T, P>();
  std::vector<N> vals(256); for (int a = 0; a < 256; ++a) NumOf<T, P>::raw(vals[a]) = (T) a;
  c.tag(std::string("exhaustive8 ") + d.tname + "/" + d.pname + " " + OPN[op]);
  c.log << "exhaustive8 " << d.tname << "/" << d.pname << " " << OPN[op] << " dir=" << DIRN(diri) << " to0=" << show(decode<T, P>(t0)) << "\n";
  long done = 0;
  if (op_unary(op)) { for (int a = 0; a < 256; ++a) done += run_op<T, P>(c, op, vals[a], vals[1], t0, 0, diri, true, ""); }
  else if (op_2exp(op)) { for (int a = 0; a < 256; ++a) for (unsigned e = (op == SMOD_2EXP ? 1 : 0); e <= 10; ++e) done += run_op<T, P>(c, op, vals[a], vals[1], t0, e, diri, true, ""); }
  else { for (int a = 0; a < 256; ++a) for (int b = 0; b < 256; ++b) done += run_op<T, P>(c, op, vals[a], vals[b], t0, 0, diri, true, ""); }
  c.log << "evaluated " << done << " operand combinations\n";
  c.tag(std::string("dir ") + DIRN(diri));
  if (done > 0) c.nt();
}

void vf_case(vf::Ctx& c) {
  g_fpe_armed = 0;
  const int mode = c.t.weighted({ 60, 22, 16, 2 });
  if (mode == 3) {
    const int ti = (int) c.t.range(0, 1), pi = (int) c.t.range(0, 3);
    with_type(ti, [&](auto a) { typedef typename decltype(a)::type T;
      if constexpr (TT<T>::cat == 0 && sizeof(T) == 1) with_policy<T>(pi, [&](auto p) { typedef typename decltype(p)::type P; exhaustive8<T, P>(c); }); });
    return;
  }
  if (mode == 0) {
    const int ti = (int) c.t.range(0, NTYPES - 1), pi = (int) c.t.range(0, 3);
    with_type(ti, [&](auto a) { typedef typename decltype(a)::type T; with_policy<T>(pi, [&](auto p) { typedef typename decltype(p)::type P; arith_case<T, P>(c); }); });
    return;
  }
  // policy pairs (source, destination): same kind, or native <-> wrd
  const int t1 = (int) c.t.range(0, NTYPES - 1), t2 = (int) c.t.range(0, NTYPES - 1);
  if (mode == 1) {
    const int pp = (int) c.t.range(0, 5);
    with_type(t1, [&](auto a) { typedef typename decltype(a)::type T1; with_type(t2, [&](auto b) { typedef typename decltype(b)::type T2;
      switch (pp) {
      case 0: assign_case<T1, NatP, T2, NatP>(c); break;
      case 1: assign_case<T1, WP, T2, WP>(c); break;
      case 2: assign_case<T1, DP, T2, DP>(c); break;
      case 3: if constexpr (TT<T2>::cat == 0) assign_case<T1, NatP, T2, BP>(c); else assign_case<T1, NatP, T2, WP>(c); break;
      case 4: assign_case<T1, NatP, T2, WP>(c); break;
      default: assign_case<T1, WP, T2, NatP>(c); break;
      } }); });
    return;
  }
  const int pp = (int) c.t.range(0, 1);
  with_type(t1, [&](auto a) { typedef typename decltype(a)::type T1; with_type(t2, [&](auto b) { typedef typename decltype(b)::type T2;
    if (pp == 0) compare_case<T1, NatP, T2, NatP>(c); else compare_case<T1, WP, T2, WP>(c); }); });
}

VF_MAIN
