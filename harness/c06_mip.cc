// C06: MIP_Problem histories vs. exact LP (reference simplex) + complete enumeration of the boxed integer variables.
#include "poly_common.hh"
using namespace vf;
const vf::Info vf_info = { "C06", "c06_mip", 2.0 };

struct Row { std::vector<long> a; long b; int k; };   // a.x + b {=,>=} 0   (k: 0 '=', 1 '>=')
static const long W = 3;                               // integer variables are boxed in [-W, W]

struct Model { size_t n = 0; std::vector<Row> rows; std::vector<long> obj; long obj0 = 0; bool maxim = true; std::vector<bool> is_int; };

// reference: 0 unfeasible, 1 unbounded, 2 optimized(opt)
static int ref_solve(const Model& m, Q& opt, bool only_sat = false) {
  size_t n = m.n; std::vector<size_t> iv; for (size_t j = 0; j < n; ++j) if (m.is_int[j]) iv.push_back(j);
  std::vector<long> val(iv.size(), -W); bool feasible = false, unbounded = false, have = false;
  for (;;) {
    Sys s(n);
    for (size_t i = 0; i < m.rows.size(); ++i) { Con c; c.a.assign(n, Q(0)); for (size_t j = 0; j < m.rows[i].a.size(); ++j) c.a[j] = m.rows[i].a[j]; c.b = m.rows[i].b; c.r = m.rows[i].k == 0 ? ref::EQ : ref::GE; s.add(c); }
    for (size_t t = 0; t < iv.size(); ++t) { Con c; c.a.assign(n, Q(0)); c.a[iv[t]] = 1; c.b = -val[t]; c.r = ref::EQ; s.add(c); }
    if (!ref::is_empty(s)) {
      feasible = true; if (only_sat) return 2;
      Vec o(n); for (size_t j = 0; j < n; ++j) o[j] = m.maxim ? m.obj[j] : -m.obj[j];
      Q v; bool att;
      if (!ref::sup(s, o, Q(0), v, att)) unbounded = true;
      else { if (!m.maxim) v = -v; v += m.obj0; if (!have || (m.maxim ? v > opt : v < opt)) { opt = v; have = true; } }
    }
    size_t t = 0; while (t < iv.size() && ++val[t] > W) { val[t] = -W; ++t; }
    if (t == iv.size()) break;
  }
  if (!feasible) return 0; if (unbounded) return 1; return 2;
}
static bool feasible_point(const Model& m, const Generator& g, std::string& why) {
  size_t n = m.n; if (!g.is_point()) { why = "not a point"; return false; }
  Vec x(n, Q(0)); for (size_t j = 0; j < g.space_dimension() && j < n; ++j) x[j] = mkq(mpz_class(g.coefficient(Variable(j))), mpz_class(g.divisor()));
  for (size_t i = 0; i < m.rows.size(); ++i) { Q v = m.rows[i].b; for (size_t j = 0; j < m.rows[i].a.size(); ++j) v += m.rows[i].a[j] * x[j]; if (m.rows[i].k == 0 ? v != 0 : v < 0) { why = "violates constraint " + std::to_string(i); return false; } }
  for (size_t j = 0; j < n; ++j) if (m.is_int[j] && x[j].get_den() != 1) { why = "integer variable x" + std::to_string(j) + " is fractional"; return false; }
  return true;
}
static Q objective_at(const Model& m, const Generator& g) { Q at = m.obj0; for (size_t j = 0; j < g.space_dimension() && j < m.n; ++j) at += m.obj[j] * mkq(mpz_class(g.coefficient(Variable(j))), mpz_class(g.divisor())); return at; }
static Linear_Expression row_le(const Row& r) { Linear_Expression e; for (size_t j = r.a.size(); j-- > 0; ) if (r.a[j]) e += r.a[j] * Variable(j); e += r.b; return e; }
static std::string row_str(const Row& r) { std::ostringstream o; bool f = true; for (size_t j = 0; j < r.a.size(); ++j) if (r.a[j]) { o << (f ? "" : " + ") << r.a[j] << "*x" << j; f = false; } if (f || r.b) o << (f ? "" : " + ") << r.b; o << (r.k == 0 ? " = 0" : " >= 0"); return o.str(); }
static std::string describe(const Model& m) { std::ostringstream o; o << (m.maxim ? "max " : "min "); for (size_t j = 0; j < m.n; ++j) o << m.obj[j] << "*x" << j << " + "; o << m.obj0 << " s.t. {"; for (size_t i = 0; i < m.rows.size(); ++i) o << (i ? ", " : "") << row_str(m.rows[i]); o << "} int:"; for (size_t j = 0; j < m.n; ++j) o << (m.is_int[j] ? "1" : "0"); return o.str(); }

struct Prog {
  Ctx& c; Tape& t; Model m; MIP_Problem mip; std::vector<long> wit; int mutations_after_solve = 0; bool solved_once = false; bool last_unbounded = false; int pending = 0;
  Prog(Ctx& c_) : c(c_), t(c_.t), mip(0) {}

  Row gen_row(int shape) {   // shape: 0 random, 1 satisfied by the witness, 2 degenerate (passes through the witness)
    Row r; r.a.resize(m.n); for (size_t j = 0; j < m.n; ++j) r.a[j] = t.chance(35) ? 0 : t.range(-5, 5); r.b = t.range(-6, 6); r.k = t.chance(20) ? 0 : 1;
    if (shape >= 1) { long v = r.b; for (size_t j = 0; j < m.n; ++j) v += r.a[j] * wit[j]; if (r.k == 0 || shape == 2) r.b -= v; else if (v < 0) { for (size_t j = 0; j < m.n; ++j) r.a[j] = -r.a[j]; r.b = -r.b; } }
    return r;
  }
  void add_box(size_t j) { Row r; r.a.assign(m.n, 0); r.a[j] = 1; r.b = W; r.k = 1; Row r2; r2.a.assign(m.n, 0); r2.a[j] = -1; r2.b = W; r2.k = 1; m.rows.push_back(r); m.rows.push_back(r2); if (rebuild_instead()) return; mip.add_constraint(row_le(r) >= 0); mip.add_constraint(row_le(r2) >= 0); }
  MIP_Problem fresh_from_model() { MIP_Problem fresh(m.n); Variables_Set ivs; for (size_t j = 0; j < m.n; ++j) if (m.is_int[j]) ivs.insert(Variable(j)); if (!ivs.empty()) fresh.add_to_integer_space_dimensions(ivs);
    for (size_t i = 0; i < m.rows.size(); ++i) { Linear_Expression e = row_le(m.rows[i]); if (m.rows[i].k == 0) fresh.add_constraint(e == 0); else fresh.add_constraint(e >= 0); }
    Linear_Expression lo; for (size_t j = m.n; j-- > 0; ) if (m.obj[j]) lo += m.obj[j] * Variable(j); lo += m.obj0; fresh.set_objective_function(lo); fresh.set_optimization_mode(m.maxim ? MAXIMIZATION : MINIMIZATION); return fresh; }
  // KF-C06-1: constraints added to an already solved problem are incorporated wrongly in several situations; under the known
  // finding the problem is rebuilt from its data instead (the other incremental changes are still exercised).
  bool rebuild_instead() { if (!solved_once || !kf("KF-C06-1")) return false; c.excluded("KF-C06-1"); c.log << "  (problem rebuilt from its data instead of adding incrementally: KF-C06-1)\n"; mip = fresh_from_model(); return true; }
  void flush() { if (!solved_once || pending == 0 || !kf("KF-C06-1")) return; c.excluded("KF-C06-1"); (void) mip.is_satisfiable(); pending = 0; }

  void check_solve(const char* how, MIP_Problem& p) {
    Q opt; int rs = ref_solve(m, opt);
    MIP_Problem_Status st = p.solve(); int ps = st == UNFEASIBLE_MIP_PROBLEM ? 0 : st == UNBOUNDED_MIP_PROBLEM ? 1 : 2;
    static const char* nm[3] = { "UNFEASIBLE", "UNBOUNDED", "OPTIMIZED" };
    c.log << "  " << how << " solve -> " << nm[ps] << "\n"; c.tag(std::string("status ") + nm[rs]); if (&p == &mip) { last_unbounded = (ps == 1); pending = 0; }
    c.check("mip.status", ps == rs, [&] { return std::string(how) + ": solve() = " + nm[ps] + ", exact " + nm[rs] + (rs == 2 ? " (optimum " + opt.get_str() + ")" : "") + " for " + describe(m); });
    if (ps == 2) {
      Coefficient nu, de; p.optimal_value(nu, de); Q pv = mkq(mpz_class(nu), mpz_class(de));
      c.check("mip.optimal_value", pv == opt, [&] { return std::string(how) + ": optimal_value " + pv.get_str() + ", exact " + opt.get_str() + " for " + describe(m); });
      const Generator& g = p.optimizing_point(); std::string why;
      c.check("mip.optimizing_point.feasible", feasible_point(m, g, why), [&] { std::ostringstream o; o << how << ": optimizing_point " << g << " " << why << " for " << describe(m); return o.str(); });
      c.check("mip.optimizing_point.value", objective_at(m, g) == pv, [&] { std::ostringstream o; o << how << ": objective at optimizing_point " << g << " is " << objective_at(m, g) << " but optimal_value is " << pv; return o.str(); });
      Coefficient n2, d2; p.evaluate_objective_function(g, n2, d2); c.check("mip.evaluate_objective_function", mkq(mpz_class(n2), mpz_class(d2)) == pv, "evaluate_objective_function disagrees with optimal_value");
    }
    if (ps != 0) { const Generator& f = p.feasible_point(); std::string why; c.check("mip.feasible_point", feasible_point(m, f, why), [&] { std::ostringstream o; o << how << ": feasible_point " << f << " " << why << " for " << describe(m); return o.str(); }); }
  }

  void run() {
    m.n = (size_t) t.range(1, 4); wit.resize(8); for (size_t j = 0; j < 8; ++j) wit[j] = t.range(-2, 2);
    m.obj.assign(m.n, 0); m.is_int.assign(m.n, false); mip = MIP_Problem(m.n);
    int family = t.weighted({40, 20, 15, 15, 10});   // 0 random feasible-ish, 1 degenerate vertex, 2 hostile/infeasible, 3 unbounded-ish (few rows), 4 LP-feasible integer-infeasible
    c.log << "MIP dim " << m.n << " family " << family << "\n"; c.tag("family " + std::to_string(family));
    int steps = 0;
    auto set_obj = [&]() { for (size_t j = 0; j < m.n; ++j) m.obj[j] = t.chance(25) ? 0 : t.range(-3, 3); m.obj0 = t.range(-2, 2); Linear_Expression lo; for (size_t j = m.n; j-- > 0; ) if (m.obj[j]) lo += m.obj[j] * Variable(j); lo += m.obj0; mip.set_objective_function(lo); c.log << "  set_objective_function " << lo << "\n"; };
    // KF-C06-1: when the problem has already been solved, two or more constraints pending at the same time are incorporated
    // wrongly (one satisfied by the last point + one violated): under the known finding the pending constraints are flushed
    // one at a time (a call to is_satisfiable() between two additions), which is handled correctly.
    auto kf1 = [&]() { if (!solved_once || pending == 0 || !kf("KF-C06-1")) return; c.excluded("KF-C06-1"); c.log << "  (is_satisfiable() inserted: KF-C06-1)\n"; (void) mip.is_satisfiable(); pending = 0; };
    auto add_rows = [&](int k) { Constraint_System cs; std::vector<Row> rs; for (int i = 0; i < k; ++i) { int shape = family == 1 ? 2 : family == 2 ? 0 : (t.chance(80) ? 1 : 0); Row r = gen_row(shape); if (family == 4 && m.n >= 1) { /* thin slab between integers */ r.a.assign(m.n, 0); size_t j = t.range(0, (long) m.n - 1); r.a[j] = t.chance(50) ? 3 : -3; r.b = r.a[j] > 0 ? -1 : 2; r.k = 1; } rs.push_back(r); }
      bool one = k == 1 && t.chance(60); c.log << "  add_constraint" << (one ? " " : "s {"); for (size_t i = 0; i < rs.size(); ++i) { c.log << (i ? ", " : "") << row_str(rs[i]); m.rows.push_back(rs[i]); Linear_Expression e = row_le(rs[i]); if (rs[i].k == 0) cs.insert(e == 0); else cs.insert(e >= 0); } c.log << (one ? "\n" : "}\n"); if (rebuild_instead()) return; if (one) { Linear_Expression e = row_le(rs[0]); if (rs[0].k == 0) mip.add_constraint(e == 0); else mip.add_constraint(e >= 0); } else mip.add_constraints(cs); };
    // initial data
    add_rows(family == 3 ? (int) t.range(0, 2) : (int) t.range(1, 5)); set_obj(); m.maxim = t.chance(50); mip.set_optimization_mode(m.maxim ? MAXIMIZATION : MINIMIZATION); c.log << "  set_optimization_mode " << (m.maxim ? "MAX" : "MIN") << "\n";
    { Variables_Set ivs; for (size_t j = 0; j < m.n; ++j) if (ivs.size() < 3 && t.chance(family == 4 ? 70 : 35)) { ivs.insert(Variable(j)); } if (!ivs.empty()) { c.log << "  add_to_integer_space_dimensions {"; for (Variables_Set::const_iterator i = ivs.begin(); i != ivs.end(); ++i) { c.log << " x" << *i; m.is_int[*i] = true; } c.log << " }\n"; mip.add_to_integer_space_dimensions(ivs); for (size_t j = 0; j < m.n; ++j) if (m.is_int[j]) add_box(j); } }
    while (!t.exhausted() && steps < 12) {
      ++steps; int what = t.weighted({30, 8, 14, 6, 8, 8, 6, 8, 6, 6});
      switch (what) {
      case 0: check_solve("history", mip); solved_once = true; break;
      case 1: { Q d; bool sat = ref_solve(m, d, true) != 0; bool r = mip.is_satisfiable(); pending = 0; c.log << "  is_satisfiable -> " << r << "\n"; c.check("mip.is_satisfiable", r == sat, [&] { return std::string("is_satisfiable() = ") + (r ? "true" : "false") + " for " + describe(m); }); if (r) { std::string why; const Generator& f = mip.feasible_point(); c.check("mip.feasible_point", feasible_point(m, f, why), [&] { std::ostringstream o; o << "feasible_point " << f << " " << why << " for " << describe(m); return o.str(); }); } solved_once = true; break; }
      case 2: if (m.rows.size() < 12) { add_rows((int) t.range(1, 2)); if (solved_once) ++mutations_after_solve; } break;
      case 3: { if (m.n >= 5) break; size_t k = t.range(1, 2); c.log << "  add_space_dimensions_and_embed " << k << "\n"; mip.add_space_dimensions_and_embed(k); m.n += k; m.obj.resize(m.n, 0); m.is_int.resize(m.n, false); if (solved_once) ++mutations_after_solve; break; }
      case 4: { std::vector<size_t> cand; size_t nint = 0; for (size_t j = 0; j < m.n; ++j) { if (!m.is_int[j]) cand.push_back(j); else ++nint; } if (cand.empty() || nint >= 3) break; size_t j = cand[t.range(0, (long) cand.size() - 1)]; Variables_Set ivs; ivs.insert(Variable(j)); c.log << "  add_to_integer_space_dimensions { x" << j << " }\n"; mip.add_to_integer_space_dimensions(ivs); m.is_int[j] = true; add_box(j); if (solved_once) ++mutations_after_solve; break; }
      case 5: set_obj(); if (solved_once) ++mutations_after_solve; break;
      case 6: m.maxim = !m.maxim; mip.set_optimization_mode(m.maxim ? MAXIMIZATION : MINIMIZATION); c.log << "  set_optimization_mode " << (m.maxim ? "MAX" : "MIN") << "\n"; if (solved_once) ++mutations_after_solve; break;
      case 7: { int pr = (int) t.range(0, 2); mip.set_control_parameter(pr == 0 ? MIP_Problem::PRICING_TEXTBOOK : pr == 1 ? MIP_Problem::PRICING_STEEPEST_EDGE_EXACT : MIP_Problem::PRICING_STEEPEST_EDGE_FLOAT); c.log << "  set_control_parameter pricing " << pr << "\n"; c.tag("pricing " + std::to_string(pr)); break; }
      case 8: { int h = (int) t.range(0, 2); if (h == 0) { MIP_Problem cp(mip); mip = cp; c.log << "  mip = copy(mip)\n"; } else if (h == 1) { MIP_Problem cp(mip); mip.m_swap(cp); c.log << "  swap with a copy\n"; } else { MIP_Problem cp(mip); check_solve("copy", cp); } break; }
      default: { // observers that must agree with the data
        c.check("mip.space_dimension", mip.space_dimension() == m.n, "space_dimension() wrong");
        Variables_Set iv = mip.integer_space_dimensions(); bool ok = true; for (size_t j = 0; j < m.n; ++j) if ((iv.count(j) != 0) != m.is_int[j]) ok = false; c.check("mip.integer_space_dimensions", ok, "integer_space_dimensions() wrong");
        c.check("mip.optimization_mode", (mip.optimization_mode() == MAXIMIZATION) == m.maxim, "optimization_mode() wrong");
        break; }
      }
    }
    // final: history == fresh problem built from the final data
    check_solve("final", mip);
    { MIP_Problem fresh(m.n); Variables_Set ivs; for (size_t j = 0; j < m.n; ++j) if (m.is_int[j]) ivs.insert(Variable(j)); if (!ivs.empty()) fresh.add_to_integer_space_dimensions(ivs);
      for (size_t i = 0; i < m.rows.size(); ++i) { Linear_Expression e = row_le(m.rows[i]); if (m.rows[i].k == 0) fresh.add_constraint(e == 0); else fresh.add_constraint(e >= 0); }
      Linear_Expression lo; for (size_t j = m.n; j-- > 0; ) if (m.obj[j]) lo += m.obj[j] * Variable(j); lo += m.obj0; fresh.set_objective_function(lo); fresh.set_optimization_mode(m.maxim ? MAXIMIZATION : MINIMIZATION);
      MIP_Problem_Status a = mip.solve(), b = fresh.solve(); c.check("mip.incremental_equals_fresh.status", a == b, [&] { return "the history-built problem and a fresh one disagree on the status for " + describe(m); });
      if (a == OPTIMIZED_MIP_PROBLEM && b == OPTIMIZED_MIP_PROBLEM) { Coefficient n1, d1, n2, d2; mip.optimal_value(n1, d1); fresh.optimal_value(n2, d2); c.check("mip.incremental_equals_fresh.value", mkq(mpz_class(n1), mpz_class(d1)) == mkq(mpz_class(n2), mpz_class(d2)), "history-built and fresh problems disagree on the optimum"); } }
    bool anyint = false; for (size_t j = 0; j < m.n; ++j) anyint = anyint || m.is_int[j];
    if (mutations_after_solve >= 1 || (anyint && m.rows.size() >= 3) || m.rows.size() >= 4) c.nt();
  }
};
void vf_case(Ctx& c) {
  Prog p(c);
#ifndef NDEBUG
  // With assertions enabled PPL_ASSERT(OK()) evaluates MIP_Problem::OK(), which itself throws when last_generator has fewer
  // dimensions than the problem (after add_space_dimensions_and_embed): an artefact of the debugging build, not of the library's behaviour.
  try { p.run(); }
  catch (std::invalid_argument& e) { if (std::strstr(e.what(), "PPL::Generator::coefficient")) throw vf::Inconclusive("OK() evaluated inside an assertion threw (debug-build artefact)"); throw; }
#else
  p.run();
#endif
}
VF_MAIN
