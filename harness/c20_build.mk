# C20: out-of-tree build of the PPL C language interface + the harness c20_cint.
#
#   make -f /verif/harness/c20_build.mk -j16 BUILDROOT=/tmp/x/build FLV=dbg
#
# builds (incrementally, in parallel)
#   $(B)/libppl.a                 through the rules of /verif/Makefile (included below)
#   $(B)/c20/ppl_c.h              regenerated from ppl_c_header.h + ppl_c_version.h.in + m4 templates
#   $(B)/c20/ppl_c_<Domain>.cc    regenerated from the m4 templates (ALL configured domains)
#   $(B)/libppl_c.a               ppl_c_implementation_common.o + the objects of $(C20_DOMAINS)
#   $(B)/bin/c20_cint             /verif/harness/c20_cint.cc + libppl_c.a + libppl.a
#
# The recipe mirrors /repo/interfaces/C/Makefile.am:
#   ppl_c_domains.h               m4 --prefix-builtin -I.. -I$(srcdir) -I$(srcdir)/.. ppl_interface_generator_c_h.m4
#   ppl_c_<Domain>.cc             m4 ... ppl_interface_generator_c_cc_files.m4 > blob; cm_cleaner.sh; cm_splitter.sh
#   ppl_c_<Domain>.hh, ppl_c_implementation_domains.hh   same with ..._c_hh_files.m4
#   ppl_c.h                       utils/build_header -I <gen> -I src ppl_c_header.h
#
# Everything generated is installed with move-if-change, so touching a template that does
# not change a given output does not recompile it.  Nothing is ever read from the in-tree
# generated files /repo/interfaces/C/ppl_c.h, ppl_c_*.cc, /repo/src/ppl.hh: the hand-written
# sources of the interface are *copied* into the generated directory because a quoted
# #include searches the directory of the including file first (and /repo/interfaces/C holds
# a stale in-tree ppl_c.h).

# This fragment is included at the end of /verif/Makefile (which defines B, REPO, FLAGS, INC, HINC, HLIBS, LDX).
C20_HD := $(VERIF)/harness/
.PHONY: c20 c20-gen c20-lib

G     := $(B)/c20
IFC   := $(REPO)/interfaces
M4    ?= m4
PERL  ?= /usr/bin/perl
M4FLAGS := --prefix-builtin -I$(IFC) -I$(IFC)/C -I$(IFC)

# all the interfaced domains configured in /repo (every one is generated)
C20_ALL_DOMAINS := $(shell sed -n "s/^m4_define(.m4_interface_classes_names., .\([A-Za-z0-9_@]*\).)/\1/p" $(IFC)/ppl_interface_instantiations.m4 | tr '@' ' ')
# the ones compiled into libppl_c.a (C20_DOMAINS=all compiles everything)
C20_DOMAINS ?= all
ifeq ($(C20_DOMAINS),all)
override C20_DOMAINS := $(C20_ALL_DOMAINS)
endif

GEN_DEPS := $(IFC)/C/ppl_interface_generator_c_procedure_generators.m4 \
            $(IFC)/C/ppl_interface_generator_c_h.m4 \
            $(IFC)/C/ppl_interface_generator_c_h_code.m4 \
            $(IFC)/C/ppl_interface_generator_c_cc_files.m4 \
            $(IFC)/C/ppl_interface_generator_c_hh_files.m4 \
            $(IFC)/C/ppl_interface_generator_c_cc_code.m4 \
            $(IFC)/ppl_interface_instantiations.m4 \
            $(IFC)/ppl_interface_generator_common.m4 \
            $(IFC)/ppl_interface_generator_common_dat.m4 \
            $(IFC)/ppl_interface_generator_copyright \
            $(IFC)/ppl_interface_generator_common_procedure_generators.m4 \
            $(REPO)/utils/cm_cleaner.sh $(REPO)/utils/cm_splitter.sh \
            $(C20_HD)c20_build.mk

# install every file of directory $(1) into $(G) unless an identical one is already there
define c20_install
for f in $(1)/*; do b=`basename $$f`; if cmp -s $$f $(G)/$$b; then rm -f $$f; else mv -f $$f $(G)/$$b; fi; done
endef

# --- generated headers and sources -------------------------------------------
$(G)/h.stamp: $(GEN_DEPS)
	@mkdir -p $(G)/tmp.h && rm -f $(G)/tmp.h/*
	$(M4) $(M4FLAGS) $(IFC)/C/ppl_interface_generator_c_h.m4 > $(G)/tmp.h/ppl_c_domains.h
	@$(call c20_install,$(G)/tmp.h)
	@echo timestamp > $@

$(G)/cc.stamp: $(GEN_DEPS)
	@mkdir -p $(G)/tmp.cc && rm -f $(G)/tmp.cc/*
	cd $(G)/tmp.cc && $(M4) $(M4FLAGS) $(IFC)/C/ppl_interface_generator_c_cc_files.m4 > ppl_c_cc_blob \
	  && sh $(REPO)/utils/cm_cleaner.sh ./ppl_c_cc_blob && sh $(REPO)/utils/cm_splitter.sh ./ppl_c_cc_blob && rm -f ppl_c_cc_blob
	@$(call c20_install,$(G)/tmp.cc)
	@echo timestamp > $@

$(G)/hh.stamp: $(GEN_DEPS)
	@mkdir -p $(G)/tmp.hh && rm -f $(G)/tmp.hh/*
	cd $(G)/tmp.hh && $(M4) $(M4FLAGS) $(IFC)/C/ppl_interface_generator_c_hh_files.m4 > ppl_c_hh_blob \
	  && sh $(REPO)/utils/cm_cleaner.sh ./ppl_c_hh_blob && sh $(REPO)/utils/cm_splitter.sh ./ppl_c_hh_blob && rm -f ppl_c_hh_blob
	@$(call c20_install,$(G)/tmp.hh)
	@echo timestamp > $@

$(G)/ppl_c_domains.h: $(G)/h.stamp ;
$(G)/ppl_c_implementation_domains.hh $(patsubst %,$(G)/ppl_c_%.hh,$(C20_ALL_DOMAINS)): $(G)/hh.stamp ;
$(patsubst %,$(G)/ppl_c_%.cc,$(C20_ALL_DOMAINS)): $(G)/cc.stamp ;

# ppl_c_version.h: what configure does with ppl_c_version.h.in, values taken from src/version.hh
$(G)/ppl_c_version.h: $(IFC)/C/ppl_c_version.h.in $(REPO)/src/version.hh $(C20_HD)c20_build.mk
	@mkdir -p $(G)
	@v() { sed -n "s/^#define $$1 \(.*\)$$/\1/p" $(REPO)/src/version.hh | head -1; }; \
	 ver=`v PPL_VERSION | tr -d '"'`; \
	 sed -e "s/@VERSION@/$$ver/" -e "s/@PPL_VERSION_MAJOR@/`v PPL_VERSION_MAJOR`/" -e "s/@PPL_VERSION_MINOR@/`v PPL_VERSION_MINOR`/" \
	     -e "s/@PPL_VERSION_REVISION@/`v PPL_VERSION_REVISION`/" -e "s/@PPL_VERSION_BETA@/`v PPL_VERSION_BETA`/" $< > $@.tmp
	@if cmp -s $@.tmp $@; then rm $@.tmp; else mv $@.tmp $@; fi

# ppl_c.h: ppl_c_header.h with ppl_c_version.h and ppl_c_domains.h inlined by utils/build_header
$(G)/build_header: $(REPO)/utils/build_header.in
	@mkdir -p $(G)
	sed -e 's,@PERL@,$(PERL),g' -e 's,@generated_automatically@,generated from build_header.in,' $< > $@

# (build_header searches the directory of its input first: run it on a private copy, so that
#  the in-tree /repo/interfaces/C/ppl_c_version.h and ppl_c_domains.h are never picked up)
$(G)/ppl_c_header.h: $(IFC)/C/ppl_c_header.h
	@mkdir -p $(G)
	cp -f $< $@

$(G)/ppl_c.h: $(G)/ppl_c_header.h $(G)/ppl_c_version.h $(G)/ppl_c_domains.h $(G)/build_header
	$(PERL) $(G)/build_header -I $(G) -I $(REPO)/src $(G)/ppl_c_header.h > $@.tmp
	@if cmp -s $@.tmp $@; then rm $@.tmp; touch -c $@; else mv $@.tmp $@; fi

# private copies of the hand-written sources (see the note on quoted includes above)
$(G)/ppl_c_implementation_common%: $(IFC)/C/ppl_c_implementation_common%
	@mkdir -p $(G)
	cp -f $< $@

# "ppl.hh" of the private library flavour: src/ppl_header.hh pulls in the private ppl-config.h,
# version.hh and ppl_include_files.hh (this is what build_header flattens into the installed ppl.hh)
$(G)/ppl.hh: $(C20_HD)c20_build.mk
	@mkdir -p $(G)
	@echo '#include "ppl_header.hh"' > $@

C20_GEN := $(G)/ppl_c.h $(G)/ppl.hh $(G)/hh.stamp $(G)/cc.stamp $(G)/h.stamp \
           $(G)/ppl_c_implementation_common.cc $(G)/ppl_c_implementation_common_defs.hh $(G)/ppl_c_implementation_common_inlines.hh
c20-gen: $(C20_GEN)

# --- objects, archive, harness -------------------------------------------------
C20INC  := -I$(G) $(INC) -I$(IFC) -I$(IFC)/C
C20_OBJS := $(G)/obj/ppl_c_implementation_common.o $(patsubst %,$(G)/obj/ppl_c_%.o,$(C20_DOMAINS))

# the generated files are order-only prerequisites: the real dependencies come from the .d files
$(G)/obj/%.o: $(G)/%.cc $(B)/cfg/ppl-config.h | $(C20_GEN)
	@mkdir -p $(G)/obj
	$(CXX) $(FLAGS) $(C20INC) -MMD -MP -c $< -o $@

$(B)/libppl_c.a: $(C20_OBJS)
	@rm -f $@
	ar rcs $@ $(C20_OBJS)
c20-lib: $(B)/libppl_c.a

# The harness is one source file compiled in 9 parts (-DC20_PART=0..8: main part + one part per
# domain program) so that the heavy template instantiations compile in parallel.
C20_PARTS := 0 1 2 3 4 5 6 7 8
C20_HOBJS := $(patsubst %,$(G)/obj/c20_cint.p%.o,$(C20_PARTS))
$(G)/obj/c20_cint.p%.o: $(C20_HD)c20_cint.cc $(B)/cfg/ppl-config.h | $(C20_GEN)
	@mkdir -p $(G)/obj
	$(CXX) $(FLAGS) -DC20_PART=$* -I$(G) $(HINC) -MMD -MP -c $< -o $@

$(B)/bin/c20_cint: $(C20_HOBJS) $(B)/libppl_c.a $(B)/libppl.a
	@mkdir -p $(B)/bin
	$(CXX) $(FLAGS) $(LDX) $(C20_HOBJS) $(B)/libppl_c.a $(B)/libppl.a $(HLIBS) -o $@

c20: $(B)/bin/c20_cint

.PRECIOUS: $(G)/obj/%.o
.SECONDARY: $(patsubst %,$(G)/ppl_c_%.cc,$(C20_ALL_DOMAINS))

-include $(wildcard $(G)/obj/*.d)
