#!/usr/bin/env python3
"""Regenerates MANIFEST.json from checks_config.py (claimed checks) and NOT_APPLICABLE below."""
import json, os, sys
VERIF = os.path.dirname(os.path.abspath(__file__))
sys.path.insert(0, VERIF)
from checks_config import CHECKS, LEVELS

ALL = ["C%02d" % i for i in range(1, 21)]
# properties without a registered check yet: listed with the reason (kept current)
NOT_YET = {}
for p in ALL:
    if p not in CHECKS:
        NOT_YET[p] = "check not built yet in this round (planned in DESIGN.md 4 %s); not claimed until it exists and is sound" % p

checks = []
for pid in ALL:
    if pid not in CHECKS:
        continue
    c = CHECKS[pid]
    entry = dict(
        property_id=pid,
        quick_cmd="./check %s --tier quick" % pid,
        thorough_cmd="./check %s --tier thorough" % pid,
        evidence_file="/verif/evidence/%s.json" % pid,
        replay_cmd_template="./check %s --replay {path}" % pid,
        engine="vf-harness",
        level_claimed=dict(category=LEVELS.get(pid, "exploration"), text=c["level_text"], design_ref=c.get("design_ref", "DESIGN.md 4")),
        level_note=c["level_note"],
        technique=c["technique"],
    )
    checks.append(entry)

hook_commit = os.popen("git -C /repo log --format=%H --grep='verif hook' ").read().split()
manifest = dict(
    version=1,
    setup_cmd="make -C /verif -j16 FLV=dbg lib",
    hooks=dict(guard="BUGSENG_PPL_VERIF",
               enable="checks compile /repo/src/*.cc out of tree with -DBUGSENG_PPL_VERIF and a private ppl-config.h (assertions on); see /verif/Makefile",
               baseline_off_cmd="cd /repo && make -k -j8 check",
               source_commits=hook_commit, add_only=True),
    engines=[dict(name="vf-harness", path="/verif/harness/common.hh", serves_properties=[c["property_id"] for c in checks],
                  kind_free_text="rapidcheck-driven choice-tape generator + plain replay interpreter + tape shrinker; per-property oracles in harness/*.cc; driver ./check")],
    checks=checks,
    not_applicable=[dict(property_id=p, reason=r) for p, r in sorted(NOT_YET.items())],
    notes="Checks rebuild the library flavours they need from /repo's working tree on every invocation (incremental make). "
          "KNOWN_FINDINGS.txt lists genuine defects recorded or fixed; see DESIGN.md.",
)
json.dump(manifest, open(os.path.join(VERIF, "MANIFEST.json"), "w"), indent=1)
print("MANIFEST.json: %d checks, %d not claimed" % (len(checks), len(NOT_YET)))
