// Scratch prototype (design-time feasibility probe): exact rational grids
//   G = p + Z-span(params) + R-span(lines)      (or empty)
// kept in a canonical echelon form.  Shares no code with PPL.
#ifndef REFLATTICE_HH
#define REFLATTICE_HH
#include <gmpxx.h>
#include <vector>
#include <string>
#include <sstream>
#include <cassert>

namespace rl {
typedef mpq_class Q;
typedef mpz_class Z;
typedef std::vector<Q> Vec;

inline Q dot(const Vec& a, const Vec& b) { Q s = 0; for (size_t i = 0; i < a.size(); ++i) s += a[i]*b[i]; return s; }
inline bool is_zero(const Vec& v) { for (size_t i = 0; i < v.size(); ++i) if (v[i] != 0) return false; return true; }
inline void axpy(Vec& y, const Q& a, const Vec& x) { if (a == 0) return; for (size_t i = 0; i < y.size(); ++i) y[i] += a*x[i]; }
inline Z floor_q(const Q& q) { Z r; mpz_fdiv_q(r.get_mpz_t(), q.get_num_mpz_t(), q.get_den_mpz_t()); return r; }
inline bool is_int(const Q& q) { return q.get_den() == 1; }

struct Grid {
  size_t n; bool empty;
  Vec p; std::vector<Vec> params, lines;      // canonical after canon()
  std::vector<size_t> lpiv, ppiv;             // pivot columns
  explicit Grid(size_t n_ = 0, bool universe = true) : n(n_), empty(!universe), p(n_, Q(0)) {
    if (universe) for (size_t i = 0; i < n; ++i) { Vec e(n, Q(0)); e[i] = 1; lines.push_back(e); }
    canon();
  }
  static Grid make_empty(size_t n) { return Grid(n, false); }

  void canon() {
    lpiv.clear(); ppiv.clear();
    if (empty) { params.clear(); lines.clear(); p.assign(n, Q(0)); return; }
    // 1. lines -> RREF
    std::vector<Vec> L;
    { std::vector<Vec> rows = lines; size_t r = 0;
      for (size_t c = 0; c < n && r < rows.size(); ++c) {
        size_t piv = rows.size(); for (size_t i = r; i < rows.size(); ++i) if (rows[i][c] != 0) { piv = i; break; }
        if (piv == rows.size()) continue;
        std::swap(rows[r], rows[piv]);
        Q f = rows[r][c]; for (size_t j = 0; j < n; ++j) rows[r][j] /= f;
        for (size_t i = 0; i < rows.size(); ++i) if (i != r && rows[i][c] != 0) { Q g = -rows[i][c]; axpy(rows[i], g, rows[r]); }
        lpiv.push_back(c); ++r;
      }
      rows.resize(r); L = rows; }
    lines = L;
    // 2. reduce params and point by lines
    for (size_t t = 0; t < params.size(); ++t) for (size_t k = 0; k < lines.size(); ++k) { Q g = -params[t][lpiv[k]]; axpy(params[t], g, lines[k]); }
    for (size_t k = 0; k < lines.size(); ++k) { Q g = -p[lpiv[k]]; axpy(p, g, lines[k]); }
    // 3. integer row reduction (Hermite form) of params
    Z D = 1; for (size_t t = 0; t < params.size(); ++t) for (size_t j = 0; j < n; ++j) { Z d = params[t][j].get_den(); mpz_lcm(D.get_mpz_t(), D.get_mpz_t(), d.get_mpz_t()); }
    std::vector<std::vector<Z> > M(params.size(), std::vector<Z>(n));
    for (size_t t = 0; t < params.size(); ++t) for (size_t j = 0; j < n; ++j) { Q v = params[t][j] * D; M[t][j] = v.get_num(); }
    size_t r = 0;
    for (size_t c = 0; c < n && r < M.size(); ++c) {
      // Euclid on column c among rows r..end
      for (;;) {
        size_t best = M.size();
        for (size_t i = r; i < M.size(); ++i) if (M[i][c] != 0 && (best == M.size() || abs(M[i][c]) < abs(M[best][c]))) best = i;
        if (best == M.size()) break;
        std::swap(M[r], M[best]);
        bool other = false;
        for (size_t i = r + 1; i < M.size(); ++i) if (M[i][c] != 0) {
          Z q; mpz_fdiv_q(q.get_mpz_t(), M[i][c].get_mpz_t(), M[r][c].get_mpz_t());
          for (size_t j = 0; j < n; ++j) M[i][j] -= q * M[r][j];
          if (M[i][c] != 0) other = true;
        }
        if (!other) break;
      }
      if (r < M.size() && M[r][c] != 0) {
        if (M[r][c] < 0) for (size_t j = 0; j < n; ++j) M[r][j] = -M[r][j];
        for (size_t i = 0; i < r; ++i) { Z q; mpz_fdiv_q(q.get_mpz_t(), M[i][c].get_mpz_t(), M[r][c].get_mpz_t()); if (q != 0) for (size_t j = 0; j < n; ++j) M[i][j] -= q * M[r][j]; }
        ppiv.push_back(c); ++r;
      }
    }
    M.resize(r);
    params.assign(r, Vec(n));
    for (size_t t = 0; t < r; ++t) for (size_t j = 0; j < n; ++j) params[t][j] = Q(M[t][j], D), params[t][j].canonicalize();
    // 4. reduce the point by params (bottom-up so that earlier pivots stay reduced)
    for (size_t t = 0; t < r; ++t) { Q ratio = p[ppiv[t]] / params[t][ppiv[t]]; Z f = floor_q(ratio); if (f != 0) axpy(p, Q(-f), params[t]); }
  }

  // is v in Z-span(params)+R-span(lines)?  (direction membership); integral=false => R-span of everything
  bool has_direction(Vec v, bool integral) const {
    for (size_t k = 0; k < lines.size(); ++k) { Q g = -v[lpiv[k]]; axpy(v, g, lines[k]); }
    for (size_t t = 0; t < params.size(); ++t) { Q ratio = v[ppiv[t]] / params[t][ppiv[t]]; if (integral && !is_int(ratio)) return false; axpy(v, -ratio, params[t]); }
    return is_zero(v);
  }
  bool contains_point(const Vec& x) const { if (empty) return false; Vec v(n); for (size_t i = 0; i < n; ++i) v[i] = x[i] - p[i]; return has_direction(v, true); }
  bool contains(const Grid& y) const {
    if (y.empty) return true; if (empty) return false;
    if (!contains_point(y.p)) return false;
    for (size_t t = 0; t < y.params.size(); ++t) if (!has_direction(y.params[t], true)) return false;
    for (size_t k = 0; k < y.lines.size(); ++k) { Vec v = y.lines[k]; for (size_t kk = 0; kk < lines.size(); ++kk) { Q g = -v[lpiv[kk]]; axpy(v, g, lines[kk]); } if (!is_zero(v)) return false; }
    return true;
  }
  bool equals(const Grid& y) const { return contains(y) && y.contains(*this); }

  void add_point(const Vec& x) { if (empty) { empty = false; p = x; params.clear(); lines.clear(); canon(); return; } Vec v(n); for (size_t i = 0; i < n; ++i) v[i] = x[i] - p[i]; params.push_back(v); canon(); }
  void add_param(const Vec& v) { assert(!empty); params.push_back(v); canon(); }
  void add_line(const Vec& v) { assert(!empty); lines.push_back(v); canon(); }
  void join(const Grid& y) { if (y.empty) return; if (empty) { *this = y; return; } add_point(y.p); for (size_t t = 0; t < y.params.size(); ++t) params.push_back(y.params[t]); for (size_t k = 0; k < y.lines.size(); ++k) lines.push_back(y.lines[k]); canon(); }

  // intersect with  a.x = b (mod f)   (f == 0: equality)
  void add_congruence(const Vec& a, const Q& b, Q f) {
    if (empty) return;
    if (f < 0) f = -f;
    Q gamma = dot(a, p) - b;
    size_t j0 = lines.size();
    for (size_t k = 0; k < lines.size(); ++k) if (dot(a, lines[k]) != 0) { j0 = k; break; }
    if (j0 < lines.size()) {
      Vec l0 = lines[j0]; Q b0 = dot(a, l0);
      for (size_t k = 0; k < lines.size(); ++k) if (k != j0) axpy(lines[k], -dot(a, lines[k]) / b0, l0);
      for (size_t t = 0; t < params.size(); ++t) axpy(params[t], -dot(a, params[t]) / b0, l0);
      axpy(p, -gamma / b0, l0);
      lines.erase(lines.begin() + j0);
      if (f != 0) { Vec q = l0; for (size_t i = 0; i < n; ++i) q[i] *= f / b0; params.push_back(q); }
      canon(); return;
    }
    // all lines are in the kernel of a: integer problem on the parameters
    const size_t k = params.size();
    std::vector<Q> c(k + 1); for (size_t t = 0; t < k; ++t) c[t] = dot(a, params[t]); c[k] = -f;
    Z D = 1; for (size_t t = 0; t <= k; ++t) { Z d = c[t].get_den(); mpz_lcm(D.get_mpz_t(), D.get_mpz_t(), d.get_mpz_t()); }
    { Z d = gamma.get_den(); mpz_lcm(D.get_mpz_t(), D.get_mpz_t(), d.get_mpz_t()); }
    std::vector<Z> ci(k + 1); for (size_t t = 0; t <= k; ++t) { Q v = c[t] * D; ci[t] = v.get_num(); }
    Q rq = -gamma * D; Z rhs = rq.get_num();
    // unimodular column operations: ci * U = (g,0,...,0)
    std::vector<std::vector<Z> > U(k + 1, std::vector<Z>(k + 1, Z(0))); for (size_t t = 0; t <= k; ++t) U[t][t] = 1;
    for (;;) {
      size_t best = k + 1; size_t nz = 0;
      for (size_t t = 0; t <= k; ++t) if (ci[t] != 0) { ++nz; if (best == k + 1 || abs(ci[t]) < abs(ci[best])) best = t; }
      if (nz == 0) break;
      if (best != 0) { std::swap(ci[0], ci[best]); for (size_t i = 0; i <= k; ++i) std::swap(U[i][0], U[i][best]); }
      if (nz == 1) break;
      for (size_t t = 1; t <= k; ++t) if (ci[t] != 0) { Z q; mpz_fdiv_q(q.get_mpz_t(), ci[t].get_mpz_t(), ci[0].get_mpz_t()); ci[t] -= q * ci[0]; for (size_t i = 0; i <= k; ++i) U[i][t] -= q * U[i][0]; }
    }
    Z g = ci[0];
    Z y1 = 0;
    if (g == 0) { if (rhs != 0) { empty = true; canon(); return; } }
    else { if (!mpz_divisible_p(rhs.get_mpz_t(), g.get_mpz_t())) { empty = true; canon(); return; } y1 = rhs / g; }
    std::vector<Vec> np; Vec pp = p;
    for (size_t i = 0; i < k; ++i) axpy(pp, Q(U[i][0] * y1), params[i]);
    for (size_t t = (g == 0 ? 0 : 1); t <= k; ++t) { Vec q(n, Q(0)); for (size_t i = 0; i < k; ++i) axpy(q, Q(U[i][t]), params[i]); np.push_back(q); }
    p = pp; params = np; canon();
  }
  void intersect(const Grid& y);   // via congruences is not available here; done by caller through PPL-independent congruence lists

  // x_k := (e.x + e0)/d
  void affine_image(size_t k, const Vec& e, const Q& e0, const Q& d) {
    if (empty) return;
    struct H { static void app(Vec& v, size_t k, const Vec& e, const Q& e0, const Q& d, bool pt) { Q s = pt ? e0 : Q(0); for (size_t i = 0; i < v.size(); ++i) s += e[i]*v[i]; v[k] = s / d; } };
    H::app(p, k, e, e0, d, true);
    for (size_t t = 0; t < params.size(); ++t) H::app(params[t], k, e, e0, d, false);
    for (size_t t = 0; t < lines.size(); ++t) H::app(lines[t], k, e, e0, d, false);
    canon();
  }
  Q covolume_index_in(const Grid& sup) const;  // not needed by the probe

  std::string show() const {
    if (empty) return "EMPTY";
    std::ostringstream o; o << "p("; for (size_t i = 0; i < n; ++i) o << (i ? "," : "") << p[i]; o << ")";
    for (size_t t = 0; t < params.size(); ++t) { o << " q("; for (size_t i = 0; i < n; ++i) o << (i ? "," : "") << params[t][i]; o << ")"; }
    for (size_t t = 0; t < lines.size(); ++t) { o << " l("; for (size_t i = 0; i < n; ++i) o << (i ? "," : "") << lines[t][i]; o << ")"; }
    return o.str();
  }
};
} // namespace rl
#endif
