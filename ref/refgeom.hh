// Scratch prototype (design-time feasibility probe): exact rational reference
// geometry sharing no code with PPL.  Only gmpxx is used.
#ifndef REFGEOM_HH
#define REFGEOM_HH
#include <gmpxx.h>
#include <vector>
#include <string>
#include <sstream>
#include <algorithm>
#include <cassert>
#include <stdexcept>

namespace ref {
typedef mpq_class Q;
typedef std::vector<Q> Vec;
enum Rel { EQ = 0, GE = 1, GT = 2 };

// a.x + b  rel  0
struct Con {
  Vec a; Q b; Rel r;
  Con() : b(0), r(GE) {}
  Con(const Vec& a_, const Q& b_, Rel r_) : a(a_), b(b_), r(r_) {}
  Q eval(const Vec& x) const { Q s = b; for (size_t i = 0; i < a.size(); ++i) s += a[i]*x[i]; return s; }
  bool sat(const Vec& x) const { Q v = eval(x); return r == EQ ? v == 0 : (r == GE ? v >= 0 : v > 0); }
  bool is_const() const { for (size_t i = 0; i < a.size(); ++i) if (a[i] != 0) return false; return true; }
  bool const_true() const { return r == EQ ? b == 0 : (r == GE ? b >= 0 : b > 0); }
};

struct Sys {
  size_t n;
  std::vector<Con> cs;
  explicit Sys(size_t n_ = 0) : n(n_) {}
  void add(const Con& c) { assert(c.a.size() == n); cs.push_back(c); }
  bool sat(const Vec& x) const { for (size_t i = 0; i < cs.size(); ++i) if (!cs[i].sat(x)) return false; return true; }
};

struct Budget_Exceeded : std::runtime_error { Budget_Exceeded() : std::runtime_error("refgeom budget") {} };

// ---------------------------------------------------------------------
// Exact simplex (Bland's rule, dense tableau).  Solves
//   maximize obj.y  s.t.  M y = rhs, y >= 0      (all variables non-negative)
// Returns: 0 infeasible, 1 optimal, 2 unbounded.
// ---------------------------------------------------------------------
struct LP {
  size_t nv;                       // structural variables (all >= 0)
  std::vector<Vec> rows; Vec rhs;  // equality rows
  static long& pivots() { static long p = 0; return p; }
  // work counter (elementary rational operations) and per-case budget set by the harness; <0: none
  static long& work() { static long w = 0; return w; }
  static long& limit() { static long l = -1; return l; }
  static void spend(long n) { work() += n; if (limit() >= 0 && work() > limit()) throw Budget_Exceeded(); }

  int solve(const Vec& obj, Q& opt, Vec* sol = 0) const {
    const size_t m = rows.size();
    const size_t N = nv + m;             // + artificials
    std::vector<Vec> T(m, Vec(N + 1));
    std::vector<size_t> basis(m);
    for (size_t i = 0; i < m; ++i) {
      bool neg = rhs[i] < 0;
      for (size_t j = 0; j < nv; ++j) T[i][j] = neg ? Q(-rows[i][j]) : rows[i][j];
      T[i][nv + i] = 1;
      T[i][N] = neg ? Q(-rhs[i]) : rhs[i];
      basis[i] = nv + i;
    }
    // Phase 1: minimize sum of artificials == maximize -sum.
    Vec c1(N, Q(0)); for (size_t i = 0; i < m; ++i) c1[nv + i] = -1;
    Q v; int st = run(T, basis, c1, N, N, v);
    (void) st;
    if (v != 0) return 0;
    // Drive artificials out of the basis.
    for (size_t i = 0; i < m; ++i) if (basis[i] >= nv) {
      size_t jj = nv; for (size_t j = 0; j < nv; ++j) if (T[i][j] != 0) { jj = j; break; }
      if (jj < nv) pivot(T, basis, i, jj, N);
      // else: redundant row (all structural zero, rhs zero): leave it.
    }
    Vec c2(N, Q(0)); for (size_t j = 0; j < nv; ++j) c2[j] = obj[j];
    st = run(T, basis, c2, N, nv, v);
    if (st == 2) return 2;
    opt = v;
    if (sol) { sol->assign(nv, Q(0)); for (size_t i = 0; i < m; ++i) if (basis[i] < nv) (*sol)[basis[i]] = T[i][N]; }
    return 1;
  }
private:
  static void pivot(std::vector<Vec>& T, std::vector<size_t>& basis, size_t r, size_t c, size_t N) {
    ++pivots();
    Q p = T[r][c];
    { long nz = 0; for (size_t j = 0; j <= N; ++j) if (T[r][j] != 0) ++nz; long rows = 0; for (size_t i = 0; i < T.size(); ++i) if (T[i][c] != 0) ++rows; spend(nz * rows + (long) N); }
    for (size_t j = 0; j <= N; ++j) if (T[r][j] != 0) T[r][j] /= p;
    for (size_t i = 0; i < T.size(); ++i) if (i != r && T[i][c] != 0) {
      Q f = T[i][c];
      for (size_t j = 0; j <= N; ++j) if (T[r][j] != 0) T[i][j] -= f * T[r][j];
    }
    basis[r] = c;
  }
  // maximize c over current tableau; only columns < ncols may enter.
  static int run(std::vector<Vec>& T, std::vector<size_t>& basis, const Vec& c, size_t N, size_t ncols, Q& val) {
    const size_t m = T.size();
    for (long it = 0; ; ++it) {
      if (it > 20000) throw Budget_Exceeded();
      // reduced costs: d_j = c_j - sum_i c_basis[i] * T[i][j]
      size_t enter = N;
      for (size_t j = 0; j < ncols; ++j) {
        bool inb = false; for (size_t i = 0; i < m; ++i) if (basis[i] == j) { inb = true; break; }
        if (inb) continue;
        Q d = c[j];
        for (size_t i = 0; i < m; ++i) if (c[basis[i]] != 0 && T[i][j] != 0) d -= c[basis[i]] * T[i][j];
        if (d > 0) { enter = j; break; }          // Bland: smallest index
      }
      if (enter == N) break;
      size_t leave = m; Q best;
      for (size_t i = 0; i < m; ++i) if (T[i][enter] > 0) {
        Q ratio = T[i][N] / T[i][enter];
        if (leave == m || ratio < best || (ratio == best && basis[i] < basis[leave])) { leave = i; best = ratio; }
      }
      if (leave == m) return 2;
      pivot(T, basis, leave, enter, N);
    }
    val = 0; for (size_t i = 0; i < m; ++i) val += c[basis[i]] * T[i][N];
    return 1;
  }
};

// Build LP in standard form from a Sys with free variables x = u - v.
// If `eps' is true, strict rows become  a.x + b - e >= 0, with e in [0,1].
struct Std {
  LP lp; size_t n; bool has_eps; size_t eps_col;
  Std(const Sys& s, bool closure) : n(s.n), has_eps(false), eps_col(0) {
    size_t nslack = 0; bool any_strict = false;
    for (size_t i = 0; i < s.cs.size(); ++i) { if (s.cs[i].r != EQ) ++nslack; if (s.cs[i].r == GT) any_strict = true; }
    has_eps = any_strict && !closure;
    size_t nv = 2*n + nslack + (has_eps ? 2 : 0);
    lp.nv = nv;
    size_t sl = 2*n;
    eps_col = 2*n + nslack;
    for (size_t i = 0; i < s.cs.size(); ++i) {
      const Con& c = s.cs[i];
      Vec row(nv, Q(0));
      for (size_t j = 0; j < n; ++j) { row[2*j] = c.a[j]; row[2*j+1] = -c.a[j]; }
      if (c.r != EQ) row[sl++] = -1;
      if (c.r == GT && has_eps) row[eps_col] = -1;
      lp.rows.push_back(row); lp.rhs.push_back(-c.b);
    }
    if (has_eps) { Vec row(nv, Q(0)); row[eps_col] = 1; row[eps_col+1] = 1; lp.rows.push_back(row); lp.rhs.push_back(1); }
  }
  Vec objective(const Vec& c) const { Vec o(lp.nv, Q(0)); for (size_t j = 0; j < n; ++j) { o[2*j] = c[j]; o[2*j+1] = -c[j]; } return o; }
  Vec point(const Vec& sol) const { Vec x(n); for (size_t j = 0; j < n; ++j) x[j] = sol[2*j] - sol[2*j+1]; return x; }
};

inline bool is_empty(const Sys& s, Vec* witness = 0) {
  for (size_t i = 0; i < s.cs.size(); ++i) if (s.cs[i].is_const() && !s.cs[i].const_true()) return true;
  Std st(s, false);
  Vec obj(st.lp.nv, Q(0)); if (st.has_eps) obj[st.eps_col] = 1;
  Q v; Vec sol;
  int r = st.lp.solve(obj, v, &sol);
  if (r == 0) return true;
  if (st.has_eps && !(v > 0)) return true;
  if (witness) *witness = st.point(sol);
  return false;
}

// sup of c.x + c0 over s (s assumed non-empty).  Returns false if unbounded.
inline bool sup(const Sys& s, const Vec& c, const Q& c0, Q& val, bool& attained) {
  Std st(s, true);
  Q v; int r = st.lp.solve(st.objective(c), v);
  if (r == 2) return false;
  assert(r == 1);
  val = v + c0;
  Sys t(s); t.add(Con(c, c0 - val, EQ));
  attained = !is_empty(t);
  return true;
}

inline Con negate_part(const Con& c, int which) {
  // complement of c; for EQ, which==0 gives a.x+b<0 i.e. -a.x-b>0, which==1 gives a.x+b>0.
  Vec na(c.a.size()); for (size_t i = 0; i < c.a.size(); ++i) na[i] = -c.a[i];
  if (c.r == GE) return Con(na, -c.b, GT);
  if (c.r == GT) return Con(na, -c.b, GE);
  return which == 0 ? Con(na, -c.b, GT) : Con(c.a, c.b, GT);
}

inline bool included_in_con(const Sys& p, const Con& c) {
  int parts = c.r == EQ ? 2 : 1;
  for (int w = 0; w < parts; ++w) { Sys t(p); t.add(negate_part(c, w)); if (!is_empty(t)) return false; }
  return true;
}
inline bool included(const Sys& p, const Sys& q) {
  for (size_t i = 0; i < q.cs.size(); ++i) if (!included_in_con(p, q.cs[i])) return false;
  return true;
}
inline bool equal(const Sys& p, const Sys& q) { return included(p, q) && included(q, p); }

// ---------------------------------------------------------------------
// Fourier-Motzkin elimination of variable j (the column is kept, zeroed).
// ---------------------------------------------------------------------
inline void canon(Con& c) {
  size_t k = 0; while (k < c.a.size() && c.a[k] == 0) ++k;
  if (k == c.a.size()) return;
  Q f = abs(c.a[k]);
  if (c.r == EQ && c.a[k] < 0) f = -f;
  if (f == 1) return;
  for (size_t i = 0; i < c.a.size(); ++i) c.a[i] /= f;
  c.b /= f;
}

inline void simplify(Sys& s, bool lp_prune) {
  std::vector<Con> out;
  for (size_t i = 0; i < s.cs.size(); ++i) {
    Con c = s.cs[i];
    if (c.is_const()) { if (c.const_true()) continue; s.cs.clear(); Con f(Vec(s.n, Q(0)), Q(-1), GE); s.cs.push_back(f); return; }
    canon(c);
    bool dup = false;
    for (size_t k = 0; k < out.size() && !dup; ++k) if (out[k].a == c.a && (out[k].r == EQ) == (c.r == EQ)) {
      if (c.r == EQ) { if (out[k].b == c.b) dup = true; }
      else { // same direction: keep tighter (smaller b); strict wins on ties
        if (c.b < out[k].b || (c.b == out[k].b && c.r == GT)) out[k] = c;
        dup = true;
      }
    }
    if (!dup) out.push_back(c);
  }
  s.cs.swap(out);
  if (!lp_prune) return;
  for (size_t i = 0; i < s.cs.size(); ) {
    if (s.cs[i].r == EQ) { ++i; continue; }
    Sys t(s.n); for (size_t k = 0; k < s.cs.size(); ++k) if (k != i) t.cs.push_back(s.cs[k]);
    t.cs.push_back(negate_part(s.cs[i], 0));
    if (is_empty(t)) s.cs.erase(s.cs.begin() + i); else ++i;
  }
}

inline void eliminate(Sys& s, size_t j) {
  // Prefer an equality.
  for (size_t i = 0; i < s.cs.size(); ++i) if (s.cs[i].r == EQ && s.cs[i].a[j] != 0) {
    Con e = s.cs[i]; s.cs.erase(s.cs.begin() + i);
    for (size_t k = 0; k < s.cs.size(); ++k) if (s.cs[k].a[j] != 0) {
      Q f = s.cs[k].a[j] / e.a[j];
      for (size_t t = 0; t < s.n; ++t) s.cs[k].a[t] -= f * e.a[t];
      s.cs[k].b -= f * e.b; s.cs[k].a[j] = 0;
    }
    simplify(s, false);
    return;
  }
  std::vector<Con> pos, neg, zero;
  for (size_t i = 0; i < s.cs.size(); ++i) { const Con& c = s.cs[i]; if (c.a[j] > 0) pos.push_back(c); else if (c.a[j] < 0) neg.push_back(c); else zero.push_back(c); }
  if (pos.size() * neg.size() > 1500) throw Budget_Exceeded();
  LP::spend((long) (pos.size() * neg.size() * s.n));
  for (size_t p = 0; p < pos.size(); ++p) for (size_t q = 0; q < neg.size(); ++q) {
    Con c; c.a.assign(s.n, Q(0));
    Q fp = -neg[q].a[j], fq = pos[p].a[j];        // both > 0
    for (size_t t = 0; t < s.n; ++t) c.a[t] = fp * pos[p].a[t] + fq * neg[q].a[t];
    c.a[j] = 0; c.b = fp * pos[p].b + fq * neg[q].b;
    c.r = (pos[p].r == GT || neg[q].r == GT) ? GT : GE;
    zero.push_back(c);
  }
  s.cs.swap(zero);
  simplify(s, s.cs.size() > 6);
}

// Project away the last k variables (returns a system of dimension n-k).
inline Sys project_last(Sys s, size_t k) {
  for (size_t t = 0; t < k; ++t) eliminate(s, s.n - 1 - t);
  Sys r(s.n - k);
  for (size_t i = 0; i < s.cs.size(); ++i) { Con c = s.cs[i]; c.a.resize(s.n - k); r.cs.push_back(c); }
  simplify(r, true);
  return r;
}

// ---------------------------------------------------------------------
// Generators -> constraint description, by the very definition:
//   P = linear.hull(L) + conic.hull(R) + NNC.hull(Pts, Cl)
// ---------------------------------------------------------------------
struct Gens { size_t n; std::vector<Vec> lines, rays, points, cpoints; explicit Gens(size_t n_ = 0) : n(n_) {} };

inline Sys from_gens(const Gens& g) {
  const size_t n = g.n;
  if (g.points.empty()) { Sys e(n); e.add(Con(Vec(n, Q(0)), Q(-1), GE)); return e; }
  const size_t k = g.lines.size() + g.rays.size() + g.points.size() + g.cpoints.size();
  Sys s(n + k);
  // x_i - sum_j coef_j g_j[i] = 0
  for (size_t i = 0; i < n; ++i) {
    Con c; c.a.assign(n + k, Q(0)); c.r = EQ; c.b = 0; c.a[i] = 1; size_t col = n;
    for (size_t t = 0; t < g.lines.size(); ++t) c.a[col++] = -g.lines[t][i];
    for (size_t t = 0; t < g.rays.size(); ++t) c.a[col++] = -g.rays[t][i];
    for (size_t t = 0; t < g.points.size(); ++t) c.a[col++] = -g.points[t][i];
    for (size_t t = 0; t < g.cpoints.size(); ++t) c.a[col++] = -g.cpoints[t][i];
    s.add(c);
  }
  size_t col = n + g.lines.size();
  for (size_t t = 0; t < g.rays.size() + g.points.size() + g.cpoints.size(); ++t) { Con c; c.a.assign(n + k, Q(0)); c.a[col + t] = 1; c.r = GE; c.b = 0; s.add(c); }
  { Con c; c.a.assign(n + k, Q(0)); c.r = EQ; c.b = -1; size_t pc = n + g.lines.size() + g.rays.size();
    for (size_t t = 0; t < g.points.size() + g.cpoints.size(); ++t) c.a[pc + t] = 1; s.add(c); }
  if (!g.cpoints.empty()) { Con c; c.a.assign(n + k, Q(0)); c.r = GT; c.b = 0; size_t pc = n + g.lines.size() + g.rays.size();
    for (size_t t = 0; t < g.points.size(); ++t) c.a[pc + t] = 1; s.add(c); }
  return project_last(s, k);
}

inline std::string show(const Con& c) {
  std::ostringstream o; bool first = true;
  for (size_t i = 0; i < c.a.size(); ++i) if (c.a[i] != 0) { o << (first ? "" : " + ") << c.a[i] << "*x" << i; first = false; }
  if (first) o << "0";
  if (c.b != 0) o << " + " << c.b;
  o << (c.r == EQ ? " = 0" : c.r == GE ? " >= 0" : " > 0");
  return o.str();
}
inline std::string show(const Sys& s) { std::ostringstream o; o << "{dim " << s.n << ": "; for (size_t i = 0; i < s.cs.size(); ++i) o << (i ? ", " : "") << show(s.cs[i]); o << "}"; return o.str(); }

} // namespace ref
#endif
