// Derived operations on the exact lattice model rl::Grid (ref/reflattice.hh); no PPL code.
#ifndef REFLATTICE_X_HH
#define REFLATTICE_X_HH
#include "reflattice.hh"
#include <set>

namespace rl {

// a.x = b (mod f); f == 0: equality
struct Cong { Vec a; Q b; Q f; };

// rational Gauss: solve  M f = e  (M: rows x n, full row rank assumed); returns any solution
inline bool solve(const std::vector<Vec>& M, const Vec& rhs, size_t n, Vec& sol) {
  size_t m = M.size(); std::vector<Vec> A(m, Vec(n + 1));
  for (size_t i = 0; i < m; ++i) { for (size_t j = 0; j < n; ++j) A[i][j] = M[i][j]; A[i][n] = rhs[i]; }
  std::vector<size_t> piv; size_t r = 0;
  for (size_t c = 0; c < n && r < m; ++c) {
    size_t p = r; while (p < m && A[p][c] == 0) ++p; if (p == m) continue;
    std::swap(A[p], A[r]); Q f = A[r][c]; for (size_t j = 0; j <= n; ++j) A[r][j] /= f;
    for (size_t i = 0; i < m; ++i) if (i != r && A[i][c] != 0) { Q g = A[i][c]; for (size_t j = 0; j <= n; ++j) A[i][j] -= g * A[r][j]; }
    piv.push_back(c); ++r;
  }
  for (size_t i = r; i < m; ++i) if (A[i][n] != 0) return false;
  sol.assign(n, Q(0)); for (size_t i = 0; i < r; ++i) sol[piv[i]] = A[i][n];
  return true;
}
inline std::vector<Vec> nullspace(const std::vector<Vec>& M, size_t n) {
  size_t m = M.size(); std::vector<Vec> A(M); std::vector<size_t> piv; size_t r = 0;
  for (size_t c = 0; c < n && r < m; ++c) {
    size_t p = r; while (p < m && A[p][c] == 0) ++p; if (p == m) continue;
    std::swap(A[p], A[r]); Q f = A[r][c]; for (size_t j = 0; j < n; ++j) A[r][j] /= f;
    for (size_t i = 0; i < m; ++i) if (i != r && A[i][c] != 0) { Q g = A[i][c]; for (size_t j = 0; j < n; ++j) A[i][j] -= g * A[r][j]; }
    piv.push_back(c); ++r;
  }
  std::vector<Vec> out; std::set<size_t> ps(piv.begin(), piv.end());
  for (size_t c = 0; c < n; ++c) if (!ps.count(c)) { Vec v(n, Q(0)); v[c] = 1; for (size_t i = 0; i < r; ++i) v[piv[i]] = -A[i][c]; out.push_back(v); }
  return out;
}

// a congruence description of a non-empty grid
inline std::vector<Cong> congruences_of(const Grid& g) {
  std::vector<Cong> out; size_t n = g.n;
  std::vector<Vec> M(g.params); M.insert(M.end(), g.lines.begin(), g.lines.end());
  std::vector<Vec> ns = nullspace(M, n);
  for (size_t i = 0; i < ns.size(); ++i) { Cong c; c.a = ns[i]; c.b = dot(ns[i], g.p); c.f = 0; out.push_back(c); }
  for (size_t t = 0; t < g.params.size(); ++t) { Vec rhs(M.size(), Q(0)); rhs[t] = 1; Vec f; bool ok = solve(M, rhs, n, f); assert(ok); (void) ok; Cong c; c.a = f; c.b = dot(f, g.p); c.f = 1; out.push_back(c); }
  return out;
}
inline Grid intersect(const Grid& x, const Grid& y) {
  if (x.empty || y.empty) return Grid::make_empty(x.n);
  Grid r = x; std::vector<Cong> cs = congruences_of(y);
  for (size_t i = 0; i < cs.size(); ++i) r.add_congruence(cs[i].a, cs[i].b, cs[i].f);
  return r;
}
inline size_t dim(const Grid& g) { return g.params.size() + g.lines.size(); }
// index of sublattice z in x (same affine dimension and same line space assumed); 0 if infinite / not comparable
inline Z index_in(const Grid& z, const Grid& x) {
  if (z.lines.size() != x.lines.size() || z.params.size() != x.params.size()) return 0;
  size_t k = x.params.size(); if (k == 0) return 1;
  std::vector<Vec> C(k, Vec(k));
  for (size_t t = 0; t < k; ++t) { Vec v = z.params[t];
    for (size_t l = 0; l < x.lines.size(); ++l) { Q gq = -v[x.lpiv[l]]; axpy(v, gq, x.lines[l]); }
    for (size_t s = 0; s < k; ++s) { Q ratio = v[x.ppiv[s]] / x.params[s][x.ppiv[s]]; C[t][s] = ratio; axpy(v, -ratio, x.params[s]); } }
  Q det = 1; // rational Gauss determinant
  for (size_t c = 0; c < k; ++c) { size_t p = c; while (p < k && C[p][c] == 0) ++p; if (p == k) return 0; if (p != c) { std::swap(C[p], C[c]); det = -det; }
    det *= C[c][c]; for (size_t i = c + 1; i < k; ++i) if (C[i][c] != 0) { Q f = C[i][c] / C[c][c]; for (size_t j = c; j < k; ++j) C[i][j] -= f * C[c][j]; } }
  if (det < 0) det = -det; return det.get_num();
}
// smallest grid containing x \ y
inline Grid difference(const Grid& x, const Grid& y) {
  if (x.empty) return x;
  Grid z = intersect(x, y);
  if (z.empty) return x;
  if (z.equals(x)) return Grid::make_empty(x.n);
  if (dim(z) == dim(x) && z.lines.size() == x.lines.size() && index_in(z, x) == 2) {
    // the other coset: a point of x not in z, with z's directions
    Vec q = x.p; if (z.contains_point(q)) { for (size_t t = 0; t < x.params.size(); ++t) { Vec c = x.p; axpy(c, Q(1), x.params[t]); if (!z.contains_point(c)) { q = c; break; } } }
    Grid r = z; Vec shift(x.n); for (size_t i = 0; i < x.n; ++i) shift[i] = q[i] - z.p[i]; for (size_t i = 0; i < x.n; ++i) r.p[i] += shift[i]; r.canon(); return r;
  }
  return x;
}
inline bool union_is_grid(const Grid& x, const Grid& y) {
  if (x.contains(y) || y.contains(x)) return true;
  Grid j = x; j.join(y);
  if (dim(x) != dim(j) || dim(y) != dim(j) || x.lines.size() != j.lines.size() || y.lines.size() != j.lines.size()) return false;
  return index_in(x, j) == 2 && index_in(y, j) == 2 && intersect(x, y).empty;
}
inline Grid affine_preimage(const Grid& g, size_t k, const Vec& e, const Q& e0, const Q& d) {
  if (g.empty) return g;
  Grid r(g.n); std::vector<Cong> cs = congruences_of(g);
  for (size_t i = 0; i < cs.size(); ++i) { Vec a = cs[i].a; Q ak = a[k]; a[k] = 0; for (size_t j = 0; j < g.n; ++j) a[j] += ak * e[j] / d; r.add_congruence(a, cs[i].b - ak * e0 / d, cs[i].f); }
  return r;
}
inline Grid embed(const Grid& g, size_t m) { Grid r = Grid::make_empty(g.n + m); if (g.empty) return r; r.empty = false; r.p = g.p; r.p.resize(g.n + m, Q(0));
  for (size_t t = 0; t < g.params.size(); ++t) { Vec v = g.params[t]; v.resize(g.n + m, Q(0)); r.params.push_back(v); }
  for (size_t t = 0; t < g.lines.size(); ++t) { Vec v = g.lines[t]; v.resize(g.n + m, Q(0)); r.lines.push_back(v); }
  for (size_t i = 0; i < m; ++i) { Vec v(g.n + m, Q(0)); v[g.n + i] = 1; r.lines.push_back(v); } r.canon(); return r; }
inline Grid project(const Grid& g, size_t m) { Grid r = Grid::make_empty(g.n + m); if (g.empty) return r; r.empty = false; r.p = g.p; r.p.resize(g.n + m, Q(0));
  for (size_t t = 0; t < g.params.size(); ++t) { Vec v = g.params[t]; v.resize(g.n + m, Q(0)); r.params.push_back(v); }
  for (size_t t = 0; t < g.lines.size(); ++t) { Vec v = g.lines[t]; v.resize(g.n + m, Q(0)); r.lines.push_back(v); } r.canon(); return r; }
// keep[i] = new index of old dim i, or -1 if removed (projection)
inline Grid remap(const Grid& g, const std::vector<long>& keep, size_t n2) {
  Grid r = Grid::make_empty(n2); if (g.empty) return r; r.empty = false;
  struct H { static Vec m(const Vec& v, const std::vector<long>& keep, size_t n2) { Vec w(n2, Q(0)); for (size_t i = 0; i < v.size(); ++i) if (keep[i] >= 0) w[keep[i]] = v[i]; return w; } };
  r.p = H::m(g.p, keep, n2); for (size_t t = 0; t < g.params.size(); ++t) r.params.push_back(H::m(g.params[t], keep, n2)); for (size_t t = 0; t < g.lines.size(); ++t) r.lines.push_back(H::m(g.lines[t], keep, n2));
  r.canon(); return r;
}
inline Grid concatenate(const Grid& a, const Grid& b) {
  Grid r = Grid::make_empty(a.n + b.n); if (a.empty || b.empty) return r; r.empty = false; size_t N = a.n + b.n;
  r.p.assign(N, Q(0)); for (size_t i = 0; i < a.n; ++i) r.p[i] = a.p[i]; for (size_t i = 0; i < b.n; ++i) r.p[a.n + i] = b.p[i];
  for (size_t t = 0; t < a.params.size(); ++t) { Vec v = a.params[t]; v.resize(N, Q(0)); r.params.push_back(v); }
  for (size_t t = 0; t < a.lines.size(); ++t) { Vec v = a.lines[t]; v.resize(N, Q(0)); r.lines.push_back(v); }
  for (size_t t = 0; t < b.params.size(); ++t) { Vec v(N, Q(0)); for (size_t i = 0; i < b.n; ++i) v[a.n + i] = b.params[t][i]; r.params.push_back(v); }
  for (size_t t = 0; t < b.lines.size(); ++t) { Vec v(N, Q(0)); for (size_t i = 0; i < b.n; ++i) v[a.n + i] = b.lines[t][i]; r.lines.push_back(v); }
  r.canon(); return r;
}
// is a.x constant on the grid?
inline bool constant_on(const Grid& g, const Vec& a) { for (size_t t = 0; t < g.params.size(); ++t) if (dot(a, g.params[t]) != 0) return false; for (size_t t = 0; t < g.lines.size(); ++t) if (dot(a, g.lines[t]) != 0) return false; return true; }
// values of a.x + b on the grid are v0 + Z*gq (gq = 0: constant); false if a line moves the expression
inline bool value_set(const Grid& g, const Vec& a, const Q& b, Q& v0, Q& gq) {
  for (size_t t = 0; t < g.lines.size(); ++t) if (dot(a, g.lines[t]) != 0) return false;
  v0 = dot(a, g.p) + b; gq = 0;
  for (size_t t = 0; t < g.params.size(); ++t) { Q s = dot(a, g.params[t]); if (s == 0) continue; if (s < 0) s = -s;
    if (gq == 0) gq = s; else { // rational gcd
      Z l; mpz_lcm(l.get_mpz_t(), gq.get_den_mpz_t(), s.get_den_mpz_t()); Q x1 = gq * l, x2 = s * l; Z gz; mpz_gcd(gz.get_mpz_t(), x1.get_num_mpz_t(), x2.get_num_mpz_t()); gq = Q(gz, l); gq.canonicalize(); } }
  return true;
}
} // namespace rl
#endif
