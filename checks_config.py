# Per-property configuration of the check driver (./check) and source of MANIFEST.json
# (regenerate with ./gen_manifest.py).  targets: (binary, weight); cases: total generated
# cases over all workers; secs: per-worker time cap (a cap hit just ends generation).

def T(targets, cases, secs, flavour="dbg", size=100):
    return dict(targets=targets, cases=cases, secs=secs, flavour=flavour, size=size)

LEVELS = {}
CHECKS = {}

CHECKS["C01"] = dict(
    title="A polyhedron answers every query from one point set, whatever its history",
    quick=T([("poly_prog@C01", 1)], cases=48000, secs=45),
    thorough=T([("poly_prog@C01", 1)], cases=1200000, secs=600, flavour="san"),
    rule="case = generated program (<=14 steps) over a pool of 1-3 C/NNC polyhedra (dim 0-4) mixing mutators, every const observer, "
         "copy/assign/swap; oracle = exact-rational reference geometry (simplex + Fourier-Motzkin, no PPL code). Non-trivial: some object "
         "went through >= 3 distinct status vectors (parsed from ascii_dump) and a query was answered while something was pending or not "
         "minimized; distinct = hash of the normalised choice tape.",
    technique="property-based testing (rapidcheck-generated operation sequences, model-based oracle, tape shrinking)",
    level_text="Generated-history exploration against an independent exact reference model: every description (constraints, generators, "
               "minimized or not) and every query answer is compared with the model after histories that drive the lazy status flags.",
    level_note="Small dimensions (<=4) and systems (<=6 rows); reference model trusted (self-consistent simplex/FM); absence of violations is not established.",
    design_ref="DESIGN.md 4 C01",
    assumptions=["reference geometry (ref/refgeom.hh) is correct", "dimension <= 4, <= 14 steps per program"],
)
CHECKS["C02"] = dict(
    title="Polyhedron operations compute exactly the documented point set",
    quick=T([("poly_prog@C02", 1)], cases=32000, secs=45),
    thorough=T([("poly_prog@C02", 1)], cases=800000, secs=600, flavour="san"),
    rule="case = generated program over C/NNC polyhedra weighted toward mutators; after each mutator the library value is compared with the "
         "reference semantics of definitions.dox computed on the model (exact set, smallest-enclosing three-part oracle, sandwich, predicate). "
         "Non-trivial: a mutator was applied to a receiver that is neither empty nor universe; distinct = hash of the normalised tape.",
    technique="property-based testing (rapidcheck-generated operation sequences, exact reference semantics per operator)",
    level_text="Generated-input exploration with an exact reference semantics for each set-transforming operator.",
    level_note="dim <= 4 (<= 6 after dimension changes), coefficients mostly small; reference model trusted.",
    design_ref="DESIGN.md 4 C02",
    assumptions=["reference geometry is correct", "expand_space_dimension read as independent copies (DESIGN.md 6)"],
)

CHECKS["C03"] = dict(
    title="Box, BD-shape and octagon results contain the exact result, for every type",
    quick=T([("wr_prog@C03@G1", 1), ("wr_prog@C03@G2", 1), ("wr_prog@C03@G3", 1)], cases=60000, secs=45),
    thorough=T([("wr_prog@C03@G1", 1), ("wr_prog@C03@G2", 1), ("wr_prog@C03@G3", 1), ("wr_prog@C03@G4", 1)], cases=1200000, secs=600, flavour="san"),
    rule="case = generated program over BD_Shape<T>, Octagonal_Shape<T>, Box<ITV> for rational, integer, bounded native integer and "
         "floating-point T (bounds near the limits of T included); model of an object = exact rational set denoted by its own constraints(); "
         "after each step the exact result computed by the reference geometry must be included in the result, definite answers must be true. "
         "Non-trivial: a step where rounding / overflow / inexpressibility actually enlarged the result; distinct = hash of the tape.",
    technique="property-based testing (generated operation sequences, soundness oracle from an exact reference geometry)",
    level_text="Generated-input exploration of soundness (result contains the exact result) for every numeric instantiation.",
    level_note="dim <= 3; exact rational arithmetic in the oracle; floating-point instances only under g++ -frounding-math.",
    design_ref="DESIGN.md 4 C03",
    assumptions=["reference geometry is correct", "constraints() of a shape denotes exactly the stored bounds"],
)
CHECKS["C04"] = dict(
    title="Over rationals, boxes/BD shapes/octagons are exact and best where documented",
    quick=T([("wr_prog@C04", 1)], cases=60000, secs=45),
    thorough=T([("wr_prog@C04", 1)], cases=1200000, secs=600, flavour="san"),
    rule="case = generated program over BD_Shape<mpq_class>, Octagonal_Shape<mpq_class>, Rational_Box with observers interleaved (closed / "
         "non-closed / reduced matrices); predicates compared with the exact answer, exact operators with the exact set, join / difference / "
         "constructors with the best abstraction alpha(S) computed by LP, *_if_exact verdict with exact union covering. "
         "Non-trivial: a mutator on a non-empty non-universe receiver whose object went through >= 2 status vectors.",
    technique="property-based testing (generated operation sequences, exact and best-abstraction oracles by LP)",
    level_text="Generated-input exploration with exact predicates and best-abstraction oracles for the rational instances.",
    level_note="dim <= 3; reference trusted; expressibility of affine relations decided by a conservative syntactic rule.",
    design_ref="DESIGN.md 4 C04",
    assumptions=["reference geometry is correct"],
)

CHECKS["C05"] = dict(
    title="Grids: congruence and generator descriptions agree and operations are exact",
    quick=T([("grid_prog", 1)], cases=120000, secs=45),
    thorough=T([("grid_prog", 1)], cases=3000000, secs=600, flavour="san"),
    rule="case = generated program over a pool of Grid objects (dim 0-3; congruences with moduli {0,1,2,3,4,6}, constant congruences, "
         "generators with non-unit divisors, parameters, lines) with an exact lattice model (own Hermite reduction) carried beside each object; "
         "all four descriptions, every query and every operator are compared with the model, plus membership of a window of (1/2)Z^n decided "
         "from the library's congruences. Non-trivial: a mutator on a grid that is neither empty, universe nor a single point, and an object "
         "that went through >= 2 status vectors.",
    technique="property-based testing (generated operation sequences, exact lattice reference model)",
    level_text="Generated-history exploration against an exact lattice model sharing no code with PPL.",
    level_note="dim <= 3 (<= 5 after concatenation); lattice model trusted (self-checked by the window test).",
    design_ref="DESIGN.md 4 C05",
    assumptions=["reference lattice (ref/reflattice.hh) is correct"],
)

CHECKS["C06"] = dict(
    title="MIP solver: status, optimum and witness are right, incrementally or from scratch",
    quick=T([("c06_mip", 1)], cases=60000, secs=45),
    thorough=T([("c06_mip", 1)], cases=1500000, secs=600, flavour="san"),
    rule="case = history over one MIP_Problem (1-5 variables, free variables, = and >= rows, integer variables boxed in [-3,3] so that "
         "enumeration is complete): solve / is_satisfiable / feasible_point / optimizing_point / optimal_value interleaved with add_constraint(s), "
         "new dimensions, new integer variables, new objective / direction, the three pricing rules, copy/assign/swap; oracle = exact reference "
         "simplex per integer assignment; finally the history-built problem must agree with a fresh one. Families: feasible, degenerate vertex, "
         "hostile, few rows (unbounded), LP-feasible but integer-infeasible. Non-trivial: a mutation after a solve, or integer variables with >= 3 rows, or >= 4 rows.",
    technique="property-based testing (generated solver histories, reference LP + exhaustive integer enumeration, incremental-vs-fresh metamorphic check)",
    level_text="Generated-history exploration against an exact reference (LP + complete enumeration of the boxed integer variables).",
    level_note="<= 5 variables, integer variables boxed in [-3,3]; unbounded integer regions are not generated.",
    design_ref="DESIGN.md 4 C06",
    assumptions=["reference simplex is correct", "integer variables are boxed, so enumeration is complete"],
)

CHECKS["C07"] = dict(
    title="PIP solution tree evaluates to the lexicographic minimum for every parameter assignment",
    quick=T([("c07_pip", 1)], cases=150000, secs=90),
    thorough=T([("c07_pip", 1)], cases=1500000, secs=1200, flavour="san"),
    rule="case = PIP_Problem over 1-3 variables, 0-2 parameters, 0-5 constraints (=, >=, >; coefficients in [-4,4]), optional context rows, "
         "optional big parameter, every CUTTING_STRATEGY x PIVOT_ROW_STRATEGY, followed by a history (solve; add constraints / dimensions / "
         "parameters; copy, assign, swap; change of strategy; solve again); oracle: the tree is walked through the public interface at every "
         "parameter assignment of a window (0..7 per parameter, big parameter 10^6 and 10^6+1) satisfying the context and compared with a "
         "brute-force lexicographic minimum (plain integer arithmetic, no PPL); final tree compared with the tree of a fresh problem. "
         "Non-trivial: at least one parameter or a re-solve after a modification, and a feasible assignment exists.",
    technique="property-based testing (stateful histories, brute-force lexmin oracle evaluated per parameter assignment, differential against a fresh solve)",
    level_text="Generated-history exploration with an exhaustive per-assignment oracle on a bounded parameter window.",
    level_note="parameters are sampled in a bounded window; unbounded variables are judged one-sidedly inside a window; big parameter only in the documented x'=x+M form.",
    design_ref="DESIGN.md 4 C07",
    assumptions=["brute-force oracle window (variables 0..ub or a window of 0..10 around the tree's values) contains the lexicographic minimum when the rows bound the variables"],
)

CHECKS["C09"] = dict(
    title="Pointset_Powerset operations denote the exact set-theoretic result; reductions keep the set",
    quick=T([("c09_powerset", 1)], cases=40000, secs=90),
    thorough=T([("c09_powerset", 1)], cases=400000, secs=1200, flavour="san"),
    rule="case = program over a pool of Pointset_Powerset<D> objects, D in {C_Polyhedron, NNC_Polyhedron, BD_Shape<mpq_class>, Rational_Box, Grid}, "
         "1-3 dimensions, 0-4 disjuncts each (redundant, empty, overlapping and adjacent disjuncts generated on purpose): add_disjunct, "
         "intersection, upper_bound, difference, concatenate, time_elapse, affine image/preimage, dimension operators, omega_reduce, "
         "pairwise_reduce, simplify_using_context, topological closure, the geometric predicates (covers, equals, contains, disjoint, "
         "is_universe, is_empty, is_bounded, ...). Oracle: a model holding the disjuncts as exact reference objects (ref::Sys unions with "
         "refgeom difference/covering, rl::Grid lattices); after every step the powerset must denote the model's union exactly (or soundly "
         "where the base domain is inexact), reductions must not change the set, omega_reduce must leave no entailed disjunct. "
         "Non-trivial: at least two disjuncts in an operand and a result that differs from both operands.",
    technique="property-based testing (stateful operation programs, exact reference model of finite unions)",
    level_text="Generated-program exploration against an exact reference model of finite unions.",
    level_note="operators without exact reference semantics on shapes/boxes are checked against the base operator applied disjunct-wise.",
    design_ref="DESIGN.md 4 C09",
    assumptions=["reference geometry (ref/refgeom.hh, ref/reflattice.hh) is correct"],
)

CHECKS["C10"] = dict(
    title="Partially reduced products: reductions never change the intersection; operations are sound on it",
    quick=T([("c10_product", 1)], cases=120000, secs=90),
    thorough=T([("c10_product", 1)], cases=1500000, secs=1200, flavour="san"),
    rule="case = program over a pool of Partially_Reduced_Product<D1,D2,R> objects for 22 instances (C/NNC polyhedra, BD shapes, octagons, "
         "boxes, grids; No / Smash / Constraints / Congruences / Shape_Preserving reductions), 1-3 dimensions, inconsistent component pairs "
         "generated on purpose; components are read without triggering reduce() through a derived class. Oracle: the intersection of the "
         "two components in exact reference arithmetic (ref::Sys for constraint domains, rl::Grid plus point windows for grid pairs): after "
         "every observer and every reduce() the intersection is unchanged and no component grew; after every transformer the exact image "
         "of the intersection is included in the result; observers answer for the intersection where the documentation says so. "
         "Non-trivial: a reduction changed a component, or the two components differ and the operation result depends on both.",
    technique="property-based testing (stateful programs, exact reference model of the component intersection, metamorphic reduce() invariance)",
    level_text="Generated-program exploration against an exact model of the intersection of the components.",
    level_note="widening_assign is not generated (its precondition cannot be guaranteed under reductions); grid pairs are judged on point windows.",
    design_ref="DESIGN.md 4 C10",
    assumptions=["reference geometry and lattice models are correct"],
)

CHECKS["C11"] = dict(
    title="Checked arithmetic: result relation, rounding direction and special values are truthful",
    quick=T([("c11_num", 1)], cases=600000, secs=90),
    thorough=T([("c11_num", 1)], cases=8000000, secs=1200, flavour="rel"),
    rule="case = one checked operation (assign_r, construct, neg, abs, add, sub, mul, div, idiv, rem, sqrt, gcd, lcm, gcdext, add_mul, sub_mul, "
         "*_2exp, floor/ceil/trunc, comparisons, sgn, is_integer, classify) on operands drawn from boundary-biased generators for every native "
         "integer width, float, double, long double, mpz, mpq under the policies shipped with PPL (native, extended, bounded, WRD), every "
         "rounding direction incl. STRICT_RELATION / NOT_NEEDED / IGNORE; 2% of the cases sweep an 8-bit type exhaustively; oracle: exact "
         "rational/extended arithmetic in the harness (mpq, sqrt by integer bracketing): the stored value s and exact value e must satisfy "
         "the returned Result relation, the rounding direction, the special-value class, and overflow codes must be justified. "
         "Non-trivial: inexact or out-of-range exact result, a special operand, or a boundary operand.",
    technique="property-based testing (exact rational reference model, exhaustive 8-bit sweeps, boundary-biased generators)",
    level_text="Generated-input exploration against an exact-arithmetic model, with exhaustive sweeps of the 8-bit instantiations.",
    level_note="ROUND_NOT_NEEDED exactness is not asserted for multi-step operations; smod_2exp with exp 0 and float *_2exp with exp >= 64 are treated as preconditions.",
    design_ref="DESIGN.md 4 C11",
    assumptions=["GMP mpq arithmetic is exact"],
)

CHECKS["C17"] = dict(
    title="wrap_assign / drop_some_non_integer_points / contains_integer_point are sound for integer points",
    quick=T([("c17_wrap", 1)], cases=250000, secs=90),
    thorough=T([("c17_wrap", 1)], cases=3000000, secs=1200, flavour="san"),
    rule="case = object of C/NNC polyhedron, BD_Shape<mpq|int32>, Octagonal_Shape<mpq>, Pointset_Powerset<C_Polyhedron>, Rational/Double box or "
         "Grid over 1-3 dimensions with values straddling the 8/16/32/64-bit ranges; wrap_assign with every width, representation, overflow "
         "mode, optional guard constraints, complexity threshold 0-20, individual/collective wrapping; drop_some_non_integer_points (both "
         "overloads, three complexity classes); contains_integer_point. Oracle: integer points of the argument sampled exactly (vertices, "
         "lattice points of a window, points forced across the wrap boundaries): each wrapped image (computed by plain modular arithmetic) "
         "satisfying the guard must belong to the result; no integer point may be lost by drop_some_non_integer_points; "
         "contains_integer_point is compared with exhaustive enumeration on bounded cases. Non-trivial: some sampled point actually wraps "
         "(changes quadrant), or the object has non-integer vertices.",
    technique="property-based testing (point-wise soundness oracle by modular arithmetic, exhaustive integer enumeration on bounded windows)",
    level_text="Generated-input exploration with a point-wise soundness oracle.",
    level_note="precision of wrap_assign is only checked for the documented grid rule; Partially_Reduced_Product is not covered.",
    design_ref="DESIGN.md 4 C17",
    assumptions=["sampled integer points are representative (soundness is checked point-wise, not for the whole set)"],
)

CHECKS["C13"] = dict(
    title="Objects are values: copies are independent and aliased arguments are safe",
    quick=T([("c13_values", 1)], cases=200000, secs=100),
    thorough=T([("c13_values", 1)], cases=4000000, secs=1200, flavour="san"),
    rule="case = pool program (3-4 objects, 4-14 steps) over one of C/NNC polyhedra, Grid, BD_Shape<mpq|double>, Octagonal_Shape<mpz>, Rational_Box, "
         "Pointset_Powerset<C|NNC polyhedron>, Constraints_Product<C_Polyhedron,Grid>, Linear_Expression (dense and sparse), Constraint, "
         "Generator, Congruence, Grid_Generator and their systems, MIP_Problem, PIP_Problem; steps: copy construction, assignment, swap, "
         "self-assignment, self-swap, mutation of one object while copies are alive, binary operations between pool members, aliased calls "
         "x.op(x) for every binary operation, arguments that are references into the receiver (add_constraints(x.constraints()), limited "
         "extrapolations limited by the receiver's own system, insertion of an element of the same system), the same object in two argument "
         "positions, recycling entry points. Oracle: a storage-independent model of the value of every pool object (ref::Sys, rl::Grid, "
         "exact unions, canonical strings): after each step every object not written by the step and every const argument still denotes "
         "its model; x.op(x) gives the value and answer of x'.op(y') on two equal independent copies (or throws the same exception); "
         "self-assignment/self-swap keep value and OK(); swap exchanges values; recycled donors stay destructible and assignable. "
         "Non-trivial: a copy was alive when its source was mutated, or an aliased binary call on a non-empty non-universe value.",
    technique="property-based testing (stateful pool programs, frame condition against storage-independent models, metamorphic x.op(x) vs x'.op(copy))",
    level_text="Generated-program exploration with a frame oracle and an aliasing metamorphic oracle.",
    level_note="ternary operations are covered only where the public interface has them (bounded / generalized affine images with one expression object in two positions).",
    design_ref="DESIGN.md 4a C13",
    assumptions=["reference models (ref/refgeom.hh, ref/reflattice.hh) are correct"],
)

CHECKS["C14"] = dict(
    title="Exceptional exits are clean: rejected calls change nothing, failures leak none",
    quick=T([("c14_faults", 1)], cases=40000, secs=100, flavour="rel"),
    thorough=T([("c14_faults", 1)], cases=400000, secs=1200, flavour="rel"),
    rule="part A (40%): a valid object of C/NNC polyhedra, Grid, BD_Shape<mpq>, Octagonal_Shape<mpz>, Rational_Box, Pointset_Powerset<C_Polyhedron>, "
         "Constraints_Product<C_Polyhedron,Grid>, MIP_Problem, PIP_Problem, expressions and systems is built by a short history and ONE call "
         "violating exactly one documented precondition is made (about 100 kinds per domain); oracle: the documented exception type, "
         "receiver and arguments equal to pre-call copies (== and reference geometry), OK(), same follow-up results. Part B (60%): a "
         "scenario of 2-8 library calls is run cleanly (counting N allocation events of operator new and GMP, C abandonment checkpoints, "
         "W weight units) and re-run from scratch with one fault for every k in 1..N when N <= 300 (stride sample above): k-th operator "
         "new fails, k-th allocation of new+GMP fails (through PPL's own GMP allocation hook), a Throwable thrown at the k-th "
         "maybe_abandon(), a weight threshold of k units; oracle: only the expected exception arrives, bystanders and const arguments keep "
         "value and OK(), a failed const operation repeated answers as in the clean run, every object can be assigned and destroyed, the rest "
         "of the scenario then reproduces the clean results, live allocations do not grow on three identical repetitions (leak), no global "
         "state is left behind. Objects are first inspected in a forked child so that a broken object cannot end the search. "
         "Non-trivial: part A - receiver neither empty nor universe; part B - the fault fired inside a library call.",
    technique="property-based testing with fault enumeration (k-th allocation / k-th abandonment checkpoint / weight threshold per generated scenario)",
    level_text="Generated scenarios with enumeration of the failure positions of each scenario.",
    level_note="coefficient overflow is not injected (needs the bounded-coefficient flavours); powersets get allocation faults only (they absorb abandonment); run in the shipped (rel) configuration because assertion code reacts to injected faults.",
    design_ref="DESIGN.md 4a C14",
    assumptions=["libgmp lets an exception thrown by the allocation functions propagate (PPL_GMP_SUPPORTS_EXCEPTIONS is 1; probed)"],
)

CHECKS["C18"] = dict(
    title="Termination analysis returns only genuine ranking functions; methods agree",
    quick=T([("c18_termination", 1)], cases=60000, secs=50),
    thorough=T([("c18_termination", 1)], cases=250000, secs=600, flavour="san"),
    rule="case = loop relation over 1-3 variables (C / NNC polyhedra, BD shapes, octagons, boxes; single-pset and before/after forms): planted "
         "terminating loops (affine f with f >= 0 and f - f' >= 1 added), planted non-terminating loops (fixpoint / 2-cycle), random relations "
         "(empty, equalities, strict, unbounded); oracle = exact LP validity of every returned ranking function / sampled member of mu_space, and "
         "an independent Farkas feasibility system for the verdict (refgeom, no PPL). Non-trivial: non-empty, non-universe relation with n >= 2.",
    technique="property-based testing (planted and random loop relations, exact LP witness validation, Farkas-system verdict oracle)",
    level_text="Generated-input exploration with exact witness validation and an independent existence oracle for affine ranking functions.",
    level_note="n <= 3 variables; coefficients small (some ~2^70); reference LP trusted.",
    design_ref="DESIGN.md 4 C18",
    assumptions=["reference LP (ref/refgeom.hh) is correct"],
)

CHECKS["C19"] = dict(
    title="Watchdog/weight timeouts fire once, in order, never early, never after death",
    quick=T([("c19_watchdog", 1)], cases=1600000, secs=40),
    thorough=T([("c19_watchdog", 1)], cases=40000000, secs=500, flavour="san"),
    rule="case = generated history of create(delay)/destroy/advance over <= 5 simultaneously alive Watchdog objects under a harness-owned "
         "virtual timer (setitimer/getitimer/sigaction interposed at link time); the expiry is delivered between API calls or inside the "
         "interposed system calls made while in_critical_section is set; oracle = model list in virtual time (at most once, never early, "
         "never after destruction, deadline order, promptness within reschedule_time + injected stall, timer armed iff something pending); "
         "25% of the cases exercise Threshold_Watcher<Weightwatch_Traits> (fires at the first check with the threshold exceeded, once, not otherwise). "
         "Non-trivial: >= 2 overlapping watchdogs and an expiry inside a critical section or in the same second as another deadline.",
    technique="property-based testing (stateful history generation with a harness-owned clock and signal schedule, model-based invariants)",
    level_text="Generated-schedule exploration with a virtual kernel timer: every history is deterministic and replayable.",
    level_note="Signals are injected at system-call boundaries inside the critical section and between API calls, not between arbitrary instructions; kernel timer accuracy assumed.",
    design_ref="DESIGN.md 4 C19",
    assumptions=["the kernel timer behaves as the virtual one-shot timer", "signal delivery points = system-call boundaries + between API calls"],
)

CHECKS["C12"] = dict(
    title="Interval and interval-linear-form arithmetic encloses every concrete result",
    quick=T([("c12_interval", 3), ("c12_linform", 1)], cases=900000, secs=40),
    thorough=T([("c12_interval", 3), ("c12_linform", 1)], cases=20000000, secs=500, flavour="san"),
    rule="c12_interval: operands built by construction (empty, singleton, zero-straddling, one-signed, touching zero open/closed, half-unbounded, "
         "universe, near the limits of the bound type) for rational, mpz, int8/int32 and float/double intervals; neg/add/sub/mul/div, join, "
         "intersect, difference (1- and 2-argument), refine_existential/universal (6 relation symbols), extend, cross-type assign, wrap, predicates; "
         "oracle = independent exact interval arithmetic over mpq (enclosure of chosen members and of the exact result; equality when the bound "
         "type is exact). c12_linform: Linear_Form<Interval<float/double>> operators, relative_error, intervalize and linearization of generated "
         "expression trees over the C_Expr test target; oracle = concrete evaluation under the 4 IEEE rounding modes (hardware, mode restored) "
         "must lie in the linear form evaluated exactly. Non-trivial: inexact end, zero-straddling mul/div, mixed open/closed ends; >= 2 operators and a non-point store.",
    technique="property-based testing (constructive operand shapes, independent exact interval arithmetic, concrete-execution oracle for linearization)",
    level_text="Generated-input exploration against an independent exact interval arithmetic and concrete floating-point executions.",
    level_note="Hardware float/double only (long double not analysed); oracle arithmetic in mpq; g++ -frounding-math only.",
    design_ref="DESIGN.md 4 C12",
    assumptions=["hardware IEEE arithmetic under fesetround is the concrete semantics", "oracle interval arithmetic is correct (self-checked)"],
)

CHECKS["C16"] = dict(
    title="Sparse and dense rows are interchangeable; the sparse tree is a correct map",
    quick=T([("c16_cotree", 1), ("c16_linexpr", 1)], cases=120000, secs=45),
    thorough=dict(T([("c16_cotree", 1), ("c16_linexpr", 1)], cases=600000, secs=600, flavour="san"), fuzz=dict(target="c16_cotree", secs=240)),
    rule="c16_cotree: stateful sequences (<= 200 steps) of insert (plain / with data / fresh, stale and end hints), erase (key, iterator, "
         "while iterating), index shifts, resize, swaps, reset (one / range / after), combine*, linear_combine (full and sub-range), normalize, "
         "bisect*, lower_bound/find with hints, copy/assign, construction from Dense_Row on CO_Tree and Sparse_Row, with bulk phases growing rows "
         "to hundreds of elements (keys up to 10^6) so that the density thresholds are crossed both ways; oracle = std::map model of stored "
         "entries checked after every step, plus OK()/structure_OK(). c16_linexpr: the same generated operation sequence applied to DENSE, SPARSE "
         "and mixed-representation Linear_Expression / Constraint / Generator / Congruence / Grid_Generator objects (and systems), all observable "
         "results compared and checked against a std::vector<mpz_class> model. Non-trivial: >= 1 rebuild of a tree with reserved size >= 31 or a "
         "stale-but-valid hint used; expressions with >= 3 non-zero coefficients, dimension >= 4, >= 3 mutating operations.",
    technique="property-based testing (stateful model-based testing against std::map; dense/sparse differential testing); thorough tier adds coverage-guided fuzzing (libFuzzer, ASan+UBSan) of the same structured decoder",
    level_text="Generated operation sequences against an ordered-map model and dense-vs-sparse differential comparison.",
    level_note="Private members reached through the explicit-instantiation access idiom; keys <= 10^6, <= ~600 stored elements.",
    design_ref="DESIGN.md 4 C16",
    assumptions=["std::map / std::vector<mpz_class> models are correct"],
)

CHECKS["C08"] = dict(
    title="Widenings are upper bounds, well defined on values, and force convergence",
    quick=T([("c08_widen", 1)], cases=40000, secs=45),
    thorough=T([("c08_widen", 1)], cases=1000000, secs=600, flavour="san"),
    rule="case = adversarial ascending chain (each step joins a point/ray placed just outside a bounding constraint of the current iterate, with "
         "shrinking increments) iterated with one widening: H79 / BHRZ03 on C and NNC polyhedra, H79 / BHMZ05 / CC76 on BD shapes and octagons "
         "(mpq), CC76 on rational boxes, congruence / generator widening on grids, BGP99 / BHZ03 on powersets of boxes; modes: plain chain, "
         "tokens, limited, bounded. Oracles (exact reference geometry / lattice model): result contains the larger argument; same result for the "
         "same pair rebuilt through other histories (not for NNC polyhedra); certificate strictly decreases at every non-stationary step "
         "(H79/BHRZ03/Grid certificates) or the number of non-stationary steps stays within the finite-bound budget (shapes, boxes); tokens: "
         "receiver unchanged and one token consumed iff plain widening loses precision; limited/bounded: between the larger argument and the "
         "plain widening, keeping each supplied constraint the larger argument satisfies. Non-trivial: the widening enlarged the argument and the chain had >= 3 non-stationary steps (or the token/limited case lost precision).",
    technique="property-based testing (adversarial chain generation, metamorphic representation-independence, certificate monotonicity oracle)",
    level_text="Generated-chain exploration; convergence is checked through certificate monotonicity and bounded non-stationary steps on finite chains.",
    level_note="Finite convergence over all infinite chains is a liveness statement: only its finitely checkable consequences are decided. dim <= 3.",
    design_ref="DESIGN.md 4 C08",
    assumptions=["reference geometry / lattice model correct", "NNC widenings act on the representation (definitions.dox): no value-dependence check"],
)

CHECKS["C15"] = dict(
    title="ascii_dump / ascii_load round-trips every object in every internal state",
    quick=T([("c15_dumpload", 1)], cases=1500000, secs=60),
    thorough=dict(T([("c15_dumpload", 1)], cases=5000000, secs=600, flavour="san"), fuzz=dict(target="c15_dumpload", secs=240)),
    rule="case = object reached through a generated history (C/NNC polyhedra, Grid, BD_Shape<mpq|double>, Octagonal_Shape<mpz|double>, Rational/Double "
         "boxes, Pointset_Powerset<C_Polyhedron>, Constraints_Product<C_Polyhedron,Grid>, constraint / generator / congruence / grid-generator "
         "systems and single rows in both representations, Linear_Expression, Variables_Set, Sparse_Row, Dense_Row, MIP_Problem and PIP_Problem before "
         "and after solving) dumped in whatever lazy state it is in and loaded into a target holding another value (other dimension, empty, "
         "universe, arbitrary history); oracle: load succeeds, OK(), second dump byte-identical, same value, and the same generated suffix of "
         "operations applied to original and clone gives identical dumps and answers. Non-trivial: history of >= 2 operations / solver dumped after a solve / >= 2 rows.",
    technique="property-based testing (round-trip oracle on generated lazy states, behavioural equivalence of original and clone); thorough tier adds coverage-guided fuzzing (libFuzzer, ASan+UBSan) of the same structured decoder",
    level_text="Generated-history exploration of the dump/load round trip with a behavioural-equivalence follow-up.",
    level_note="Matrix<Row>, Bit_Matrix, DB_Matrix, OR_Matrix, Interval and Linear_Form are exercised only through the domains that embed them.",
    design_ref="DESIGN.md 4 C15",
    assumptions=["operator== of the domains is used for the value comparison of original and clone (both are library objects)"],
)

CHECKS["C20"] = dict(
    title="C interface mirrors the C++ results, converts every exception to its error code, releases objects once",
    quick=T([("c20_cint", 1)], cases=1500000, secs=90),
    thorough=T([("c20_cint", 1)], cases=15000000, secs=1200, flavour="san"),
    rule="case = program of C entry-point calls on handles (C_Polyhedron, NNC_Polyhedron, Grid, Rational_Box, BD_Shape_mpq_class, "
         "Octagonal_Shape_mpz_class, Pointset_Powerset_C_Polyhedron, Constraints_Product_C_Polyhedron_Grid, MIP_Problem, PIP_Problem, "
         "coefficients, linear expressions, constraints/generators/congruences and their systems and iterators, the library-level "
         "functions) mirrored call by call through the C++ API on twin objects; ill-formed arguments (dimension mismatches, wrong "
         "topologies, zero divisors, too large dimensions), allocation failure injected at the k-th allocation inside a C call, and "
         "deterministic timeouts are generated on purpose. Oracle: return values and handle contents (ascii dump through the C dump "
         "function, getters and iterators) equal the twin's results; a C++ exception in the twin corresponds to the documented negative code "
         "and one invocation of the registered error handler with that code, with handles left usable and unchanged; no exception crosses "
         "the boundary; blocks allocated inside C calls are all released after the delete functions ran (allocation accounting); const "
         "handles keep their dump. Non-trivial: a call reached a C++ operation on a non-empty non-universe operand, or an error path ran.",
    technique="property-based testing (differential against the wrapped C++ API on twin objects, fault injection on allocation and timeouts, allocation-accounting ownership oracle)",
    level_text="Generated-program differential exploration of the C entry points against the wrapped C++ operations.",
    level_note="953 of the 1988 declared entry points are called: the double-based and remaining domain instantiations (generated from the same m4 templates), termination functions, cross-domain constructors and printing to stdout are not.",
    design_ref="DESIGN.md 4 C20",
    assumptions=["the entry points of the non-exercised domain instantiations behave like those generated from the same templates for the exercised ones"],
)
