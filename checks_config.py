# Per-property configuration of the check driver (./check) and source of MANIFEST.json
# (regenerate with ./gen_manifest.py).  targets: (binary, weight); cases: total generated
# cases over all workers; secs: per-worker time cap (a cap hit just ends generation).

def T(targets, cases, secs, flavour="dbg", size=100):
    return dict(targets=targets, cases=cases, secs=secs, flavour=flavour, size=size)

LEVELS = {}
CHECKS = {}

CHECKS["C01"] = dict(
    title="A polyhedron answers every query from one point set, whatever its history",
    quick=T([("poly_prog@C01", 1)], cases=48000, secs=45),
    thorough=T([("poly_prog@C01", 1)], cases=1200000, secs=600, flavour="san"),
    rule="case = generated program (<=14 steps) over a pool of 1-3 C/NNC polyhedra (dim 0-4) mixing mutators, every const observer, "
         "copy/assign/swap; oracle = exact-rational reference geometry (simplex + Fourier-Motzkin, no PPL code). Non-trivial: some object "
         "went through >= 3 distinct status vectors (parsed from ascii_dump) and a query was answered while something was pending or not "
         "minimized; distinct = hash of the normalised choice tape.",
    technique="property-based testing (rapidcheck-generated operation sequences, model-based oracle, tape shrinking)",
    level_text="Generated-history exploration against an independent exact reference model: every description (constraints, generators, "
               "minimized or not) and every query answer is compared with the model after histories that drive the lazy status flags.",
    level_note="Small dimensions (<=4) and systems (<=6 rows); reference model trusted (self-consistent simplex/FM); absence of violations is not established.",
    design_ref="DESIGN.md 4 C01",
    assumptions=["reference geometry (ref/refgeom.hh) is correct", "dimension <= 4, <= 14 steps per program"],
)
CHECKS["C02"] = dict(
    title="Polyhedron operations compute exactly the documented point set",
    quick=T([("poly_prog@C02", 1)], cases=32000, secs=45),
    thorough=T([("poly_prog@C02", 1)], cases=800000, secs=600, flavour="san"),
    rule="case = generated program over C/NNC polyhedra weighted toward mutators; after each mutator the library value is compared with the "
         "reference semantics of definitions.dox computed on the model (exact set, smallest-enclosing three-part oracle, sandwich, predicate). "
         "Non-trivial: a mutator was applied to a receiver that is neither empty nor universe; distinct = hash of the normalised tape.",
    technique="property-based testing (rapidcheck-generated operation sequences, exact reference semantics per operator)",
    level_text="Generated-input exploration with an exact reference semantics for each set-transforming operator.",
    level_note="dim <= 4 (<= 6 after dimension changes), coefficients mostly small; reference model trusted.",
    design_ref="DESIGN.md 4 C02",
    assumptions=["reference geometry is correct", "expand_space_dimension read as independent copies (DESIGN.md 6)"],
)
